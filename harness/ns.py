"""Namespace trees for C17 / C10 / C19 (/ C04): JSON build scripts, the real
Collection objects built from them, a dump of the built objects, Coq printers
(types of coq/Common/Namespace.v) and generators.

Script format
  coll = {"name": str|None, "auto_dash": bool, "config": {..}, "items": [item, ...]}
  item = {"task": {"id": int, "name": str, "aliases": [str], "default": bool},
          "bind": str|None, "aliases": [str], "default": None|bool}
       | {"coll": coll, "bind": str|None, "default": bool}
"""
from . import coqterm as ct
from . import gen_tree as gt


# --------------------------------------------------------------------------
# real objects
# --------------------------------------------------------------------------
def py_merge(base, updates):
    """pure-Python recursive merge (updates win); raises ValueError on dict/non-dict conflicts"""
    out = dict(base)
    for k, v in updates.items():
        if k in out and isinstance(out[k], dict) != isinstance(v, dict):
            raise ValueError("type conflict at %r" % k)
        if isinstance(v, dict) and "__tuple__" not in v:
            out[k] = py_merge(out.get(k, {}), v)
        else:
            out[k] = v
    return out


def split_config(cfg, rng):
    """two dicts whose in-order merge is [cfg]: the leaf paths are partitioned"""
    a, b = {}, {}
    for k, v in cfg.items():
        if isinstance(v, dict) and "__tuple__" not in v and v and rng.random() < 0.5:
            a[k], b[k] = split_config(v, rng)
        elif rng.random() < 0.5:
            a[k] = v
        else:
            b[k] = v
    return a, b


class Builder:
    """Builds real Task / Collection objects.  Every task id gets exactly one
    Task object whose body has its own code object (so Task.__eq__ is identity
    on ids) and reports to [self.on_call]."""

    def __init__(self, on_call=None, task_kwargs=None, sigs=None, build_seed=None, probe_names=(), late_config=False):
        """build_seed: None = children are completed before they are attached and nothing is queried
        while building; an int = pseudo-randomly attach (non-module) sub-collections *before*
        populating them and query the half-built collections (task_names, truth value, lookups) in
        between -- the built tree must not depend on either"""
        import random as _random
        self.order = None if build_seed is None else _random.Random(build_seed)
        # probe_names: names whose configuration() is also queried on the half-built collections;
        # late_config (with a build seed): some collections get their configure() calls only after the
        # tree is complete and has been queried once (build_and_dump: before_finish) -- a lookup, then
        # configure() on a collection of the path, then the judged lookup
        self.probe_names = list(probe_names)
        self.late = bool(late_config) and self.order is not None and self.order.random() < 0.6
        self.deferred = []
        self._in_module = 0
        self.built = []
        self.dicts = {}      # JSON text -> the one dict object handed out for that content
        self.tasks = {}
        self.on_call = on_call or (lambda tid, ctx, args, kwargs: None)
        self.task_kwargs = task_kwargs or {}   # id -> extra Task kwargs (pre/post...)
        self.sigs = sigs if sigs is not None else {}   # id -> python parameter list source, e.g. "x=1, y=None"

    def task(self, info):
        from invoke import Task
        tid = info["id"]
        if tid in self.tasks:
            return self.tasks[tid]
        ns = {"_run": self.on_call}
        params = self.sigs.get(tid)
        # the docstring makes the task recognisable in --list output
        if params is None:
            src = "def body(c, *a, **k):\n    'task %d'\n    return _run(%d, c, a, k)\n" % (tid, tid)
        else:
            names = [p.split("=")[0].strip() for p in params.split(",") if p.strip()]
            src = "def body(c%s):\n    'task %d'\n    return _run(%d, c, (), dict(%s))\n" % (
                (", " + params) if params.strip() else "", tid, tid,
                ", ".join("%s=%s" % (n, n) for n in names))
        exec(src, ns)
        body = ns["body"]
        body.__name__ = info["name"]
        body._verif_id = tid
        t = Task(body, name=info["name"], aliases=tuple(info.get("aliases", ())),
                 default=bool(info.get("default", False)), **self.task_kwargs.get(tid, {}))
        self.tasks[tid] = t
        return t

    def module(self, spec, ns_spec=None):
        """a module object whose explicit namespace `ns` is the collection built from spec["ns"]"""
        import types
        mod = types.ModuleType(spec["module"])
        mod.__doc__ = "COLL"
        self._in_module += 1       # (from_module copies the namespace's configuration: nothing deferred inside)
        try:
            mod.ns = self.coll(ns_spec if ns_spec is not None else spec["ns"])
        finally:
            self._in_module -= 1
        return mod

    def from_module(self, spec):
        """Collection.from_module(module, auto_dash_names=..., [config=...]): with a build seed, part of
        the namespace's configuration is handed to from_module(config=...) instead of ns.configure()"""
        from invoke import Collection
        cfg = spec["ns"].get("config", {})
        kw = {"name": spec["fm_name"]} if spec.get("fm_name") else {}
        if self.order is not None and cfg and "config_parts" not in spec["ns"] and self.order.random() < 0.5:
            a, b = split_config(cfg, self.order)
            mod = self.module(spec, dict(spec["ns"], config=a))
            return Collection.from_module(mod, auto_dash_names=spec.get("ad"), config=gt.unjson(b), **kw)
        return Collection.from_module(self.module(spec), auto_dash_names=spec.get("ad"), **kw)

    def shared(self, part):
        """the dict object for this content: the SAME object for equal contents (callers commonly pass
        one settings dict to several collections)"""
        import json as _json
        key = _json.dumps(part, sort_keys=True)
        if key not in self.dicts:
            self.dicts[key] = gt.unjson(part)
        return self.dicts[key]

    def configure(self, c, spec):
        """one configure() call, or several whose in-order merge is the configuration"""
        cfg = spec.get("config", {})
        if spec.get("config_parts"):
            for part in spec["config_parts"]:
                c.configure(self.shared(part))
        elif self.order is not None and cfg and self.order.random() < 0.5:
            for part in split_config(cfg, self.order):
                c.configure(gt.unjson(part))
        else:
            c.configure(gt.unjson(cfg))

    def probe(self):
        """read-only queries on every collection created so far"""
        if self.order is None or self.order.random() < 0.4:
            return
        for c in self.built:
            try:
                c.task_names
                bool(c)
                "no-such-name" in c
            except Exception:  # noqa: half-built trees may refuse lookups
                pass
            for nm in self.probe_names[:6]:
                try:
                    c.configuration(nm)
                except Exception:  # noqa: not (yet) a name of this collection
                    pass

    def plain_module(self, spec):
        """an ordinary tasks module: no explicit namespace, just top-level Task objects (in definition
        order); Collection.from_module collects them by introspection"""
        import types
        from invoke import Collection
        mod = types.ModuleType(spec["name"])
        mod.__doc__ = "COLL"
        for i, it in enumerate(spec["items"]):
            setattr(mod, "task_%d" % i, self.task(it["task"]))
        cfg = spec.get("config", {})
        kw = {"config": gt.unjson(cfg)} if cfg else {}
        c = Collection.from_module(mod, auto_dash_names=spec.get("auto_dash", True), **kw)
        self.built.append(c)
        return c

    def coll(self, spec, attach=None):
        from invoke import Collection
        if "module" in spec:   # the root itself is a re-imported module
            return self.from_module(spec)
        if spec.get("plain_module"):
            c = self.plain_module(spec)
            if attach is not None:
                attach(c)
            return c
        args = [spec["name"]] if spec.get("name") is not None else []
        items = list(spec.get("items", []))
        named = {}
        if self.order is not None and attach is None and self.order.random() < 0.4:
            # Collection(*tasks_and_collections, **bound_by_name): the longest prefix of the items that the
            # constructor can express in the same order -- unbound objects first, then name=object pairs
            def simple(it):
                if "task" in it:
                    return not it.get("aliases") and it.get("default") is None
                return not it.get("default") and "module" not in it["coll"]
            k = 0
            while k < len(items) and simple(items[k]) and items[k].get("bind") is None:
                k += 1
            j = k
            seen = set()
            while j < len(items) and simple(items[j]) and items[j].get("bind") is not None \
                    and items[j]["bind"] not in seen and items[j]["bind"] != "auto_dash_names" \
                    and items[j]["bind"] != "loaded_from":
                seen.add(items[j]["bind"])
                j += 1
            for it in items[:k]:
                args.append(self.task(it["task"]) if "task" in it else self.coll(it["coll"]))
            for it in items[k:j]:
                named[it["bind"]] = self.task(it["task"]) if "task" in it else self.coll(it["coll"])
            items = items[j:]
        c = Collection(*args, auto_dash_names=spec.get("auto_dash", True), **named)
        c.__doc__ = "COLL"
        self.built.append(c)
        if attach is not None:
            attach(c)
            self.probe()
        for it in items:
            if "task" in it:
                kw = {}
                if it.get("bind") is not None:
                    kw["name"] = it["bind"]
                if it.get("aliases"):
                    kw["aliases"] = tuple(it["aliases"])
                if it.get("default") is not None:
                    kw["default"] = it["default"]
                c.add_task(self.task(it["task"]), **kw)
            else:
                kw = {}
                if it.get("bind") is not None:
                    kw["name"] = it["bind"]
                if it.get("default"):
                    kw["default"] = True
                if "module" in it["coll"]:
                    if it["coll"].get("ad") is None and not it["coll"].get("fm_name"):
                        sub = self.module(it["coll"])      # add_collection(module) -> from_module(module)
                    else:
                        sub = self.from_module(it["coll"])
                    c.add_collection(sub, **kw)
                elif self.order is not None and self.order.random() < 0.6:
                    # attach the still empty sub-collection first, populate it afterwards
                    self.coll(it["coll"], attach=lambda sc, kw=kw: c.add_collection(sc, **kw))
                else:
                    c.add_collection(self.coll(it["coll"]), **kw)
            self.probe()
        if self.late and not self._in_module and self.order.random() < 0.6:
            self.deferred.append((c, spec))
        else:
            self.configure(c, spec)
        return c

    def finish(self):
        """the configure() calls held back by late_config"""
        for c, spec in self.deferred:
            self.configure(c, spec)
        self.deferred = []


def task_id(task):
    return getattr(task.body, "_verif_id", -1)


def dump(c):
    """The built tree as plain data (what coq/Common/Namespace.v [coll] holds)."""
    return {
        "name": c.name,
        "tasks": [[k, {"id": task_id(v), "name": v.name, "aliases": list(v.aliases),
                       "default": bool(v.is_default)}] for k, v in dict.items(c.tasks)],
        "aliases": [[k, v] for k, v in c.tasks.aliases.items()],
        "subs": [[k, dump(v)] for k, v in dict.items(c.collections)],
        "default": c.default,
        "auto_dash": bool(c.auto_dash_names),
        "config": gt.jsonable(gt.deep_view(c._configuration)),
    }


def build_and_dump(spec, builder=None, before_finish=None):
    """-> (collection | None, {"ok": dump} | {"err": cls}); before_finish(collection) runs on the complete
    tree before the configure() calls a late_config builder held back"""
    b = builder or Builder()
    try:
        c = b.coll(spec)
        if b.deferred:
            if before_finish is not None:
                before_finish(c)
            b.finish()
    except Exception as e:  # noqa
        return None, {"err": type(e).__name__}
    return c, {"ok": dump(c)}


# --------------------------------------------------------------------------
# Coq printers
# --------------------------------------------------------------------------
def taskinfo(t):
    return "(mkTask %s %s %s %s)" % (ct.n(t["id"]), ct.s(t["name"]), ct.strs(t.get("aliases", [])),
                                     ct.b(bool(t.get("default", False))))


def opt_s(x):
    return ct.opt(ct.s(x) if x is not None else None)


def item(it):
    if "task" in it:
        d = it.get("default")
        return "(ITask %s %s %s %s)" % (taskinfo(it["task"]), opt_s(it.get("bind")),
                                        ct.strs(it.get("aliases") or []),
                                        ct.opt(ct.b(d) if d is not None else None))
    return sub(it["coll"], it.get("bind"), bool(it.get("default")))


def sub(spec, bind=None, default=False):
    if "module" in spec:
        ad = spec.get("ad")
        if spec.get("fm_name"):
            # from_module(module, name=X): "explicitly given name wins over root ns name, which wins over the
            # module name" -- printed as the re-import of a module called X whose namespace is unnamed
            return "(IMod %s %s %s %s %s)" % (ct.s(spec["fm_name"]), ct.opt(ct.b(ad) if ad is not None else None),
                                              sub(dict(spec["ns"], name=None)), opt_s(bind), ct.b(default))
        return "(IMod %s %s %s %s %s)" % (ct.s(spec["module"]), ct.opt(ct.b(ad) if ad is not None else None),
                                          sub(spec["ns"]), opt_s(bind), ct.b(default))
    return "(ISub %s %s %s %s %s %s)" % (
        opt_s(spec.get("name")), ct.b(spec.get("auto_dash", True)),
        ct.tree(gt.unjson(spec.get("config", {}))),
        ct.lst([item(i) for i in spec.get("items", [])]), opt_s(bind), ct.b(default))


def state(d):
    cfg = gt.unjson(d["config"])
    return "(Coll %s %s %s %s %s %s %s)" % (
        opt_s(d["name"]),
        ct.lst([ct.pair(ct.s(k), taskinfo(t)) for k, t in d["tasks"]]),
        ct.lst([ct.pair(ct.s(k), ct.s(v)) for k, v in d["aliases"]]),
        ct.lst([ct.pair(ct.s(k), state(v)) for k, v in d["subs"]]),
        opt_s(d["default"]), ct.b(d["auto_dash"]),
        ct.lst([ct.pair(ct.s(k), ct.tree(v)) for k, v in cfg.items()]))


# --------------------------------------------------------------------------
# generators
# --------------------------------------------------------------------------
TASK_NAMES = ["build", "clean", "my_task", "t", "deploy", "run_it", "x", "a_b_c", "_p", "q_", "do-it", "b",
              "_cleanup_all", "Build_All", "my__task", "mix_a-b", "__init"]
ALIASES = ["bld", "c", "mt", "alias_one", "go", "z", "d-p", "al"]
COLL_NAMES = ["sub", "docs", "my_mod", "inner", "deep", "s2", "lib-x", "m", "class_", "_priv", "Lib_Y", "a__b",
              "x_y-z"]

# settings schema: which paths are sections (keeps most generated configs type-consistent)
SCHEMA = {"run": {"echo": None, "shell": None, "env": {"A": None, "B": None}},
          "k": {"x": None, "y": None, "z": {"p": None, "q": None}},
          "flat": None, "other": None, "sec": {"one": None, "two": None}}


def schema_config(rng, p_keep=0.45, p_break=0.0, schema=None, kinds="nbis"):
    """random sub-tree of the schema with random leaves; with probability
    p_break one path gets the wrong kind (section <-> value)."""
    schema = SCHEMA if schema is None else schema
    out = {}
    for k, v in schema.items():
        if rng.random() > p_keep:
            continue
        if v is None:
            out[k] = {"oops": 1} if rng.random() < p_break else gt.leaf(rng, kinds)
        elif rng.random() < p_break:
            out[k] = gt.leaf(rng, "bis")
        else:
            sub_ = schema_config(rng, 0.6, p_break, v, kinds)
            if sub_ or rng.random() < 0.3:
                out[k] = sub_
    return out


class Ids:
    def __init__(self):
        self.n = 0
        self.made = []

    def new(self, rng, names=TASK_NAMES):
        self.n += 1
        own_aliases = rng.sample(ALIASES, rng.choice([0, 0, 0, 1, 1, 2]))
        t = {"id": self.n, "name": rng.choice(names), "aliases": own_aliases,
             "default": rng.random() < 0.1}
        self.made.append(t)
        return t


def gen_coll(rng, depth, ids, name=None, clean=True, p_break=0.0, width=3, p_default=0.5,
             p_subdefault=0.25, auto_dash=None, share=0.0, p_extra=0.25, p_rename=0.3, p_mod=0.0):
    """A random collection spec.  clean=True keeps every name inside one
    collection distinct (after normalisation); clean=False allows collisions."""
    ad = (rng.random() < 0.75) if auto_dash is None else auto_dash
    spec = {"name": name, "auto_dash": ad, "config": gt.jsonable(schema_config(rng, p_break=p_break)),
            "items": []}
    used = set()

    def norm(s):
        return s.replace("_", "-").strip("-")

    def free(s):
        return norm(s) not in used

    has_default = False
    n_tasks = rng.randint(0 if depth > 1 else 1, width)
    n_subs = rng.randint(0, 2) if depth > 1 else 0
    if depth > 1 and n_tasks == 0 and n_subs == 0:
        n_subs = 1
    entries = ["t"] * n_tasks + ["c"] * n_subs
    rng.shuffle(entries)
    for kind in entries:
        if kind == "t":
            if ids.made and rng.random() < share:
                t = rng.choice(ids.made)
            else:
                t = ids.new(rng)
            bind = rng.choice(TASK_NAMES) if rng.random() < p_rename else None
            extra = rng.sample(ALIASES, 1) if rng.random() < p_extra else []
            if clean:
                t = dict(t)
                t["default"] = False
                nm = bind if bind is not None else t["name"]
                if not free(nm):
                    cands = [x for x in TASK_NAMES if free(x)]
                    if not cands:
                        continue
                    bind = rng.choice(cands)
                    nm = bind
                used.add(norm(nm))
                t["aliases"] = [a for a in t["aliases"] if free(a)]
                for a in t["aliases"]:
                    used.add(norm(a))
                extra = [a for a in extra if free(a)]
                for a in extra:
                    used.add(norm(a))
            d = None
            if not has_default and rng.random() < p_default / max(1, len(entries)) * 2:
                d = True
                has_default = True
            elif rng.random() < 0.05:
                d = False
            if not clean and rng.random() < 0.05:
                d = True
            spec["items"].append({"task": t, "bind": bind, "aliases": extra, "default": d})
        else:
            cname = rng.choice(COLL_NAMES)
            bind = rng.choice(COLL_NAMES) if rng.random() < p_rename else None
            if clean:
                nm = bind if bind is not None else cname
                if not free(nm):
                    cands = [x for x in COLL_NAMES if free(x)]
                    if not cands:
                        continue
                    bind = rng.choice(cands)
                    nm = bind
                used.add(norm(nm))
            if not clean and rng.random() < 0.07:
                cname = None if bind is None else cname
            child = gen_coll(rng, depth - 1, ids, cname, clean, p_break, width, p_default,
                             p_subdefault, None if rng.random() < 0.5 else ad, share, p_extra, p_rename, p_mod)
            if rng.random() < p_mod and child["items"] and cname is not None:
                child = wrap_module(rng, child)
            elif rng.random() < p_mod and "module" not in child and plain_module_ok(child):
                child = as_plain_module(child)
            d = False
            if (not has_default or not clean and rng.random() < 0.1) and rng.random() < p_subdefault:
                d = True
                has_default = True
            spec["items"].append({"coll": child, "bind": bind, "default": d})
    return spec


MOD_NAMES = ["tasks", "my_tasks", "mod-x", "pkg", "class_", "_tasks"]


def plain_module_ok(spec):
    """a collection a plain tasks module can express: named, tasks only, bound by their own names"""
    return (spec.get("name") is not None and spec.get("items") and "config_parts" not in spec and
            all("task" in it and it.get("bind") is None and not it.get("aliases") and it.get("default") in (None, False)
                for it in spec["items"]) and
            len(set(it["task"]["id"] for it in spec["items"])) == len(spec["items"]))


def as_plain_module(spec):
    """the same collection, written as an ordinary module (defaults move onto the tasks)"""
    items = [dict(it, default=None) for it in spec["items"]]
    return dict(spec, items=items, plain_module=True)


def wrap_module(rng, spec):
    """the collection becomes the explicit `ns` of a module re-imported by from_module"""
    out = {"module": rng.choice(MOD_NAMES), "ad": rng.choice([None, None, True, False]), "ns": spec}
    if rng.random() < 0.3:
        out["fm_name"] = rng.choice(COLL_NAMES + MOD_NAMES)      # Collection.from_module(module, name=...)
    return out


def variants(s):
    """spellings a user might type for a name"""
    out = {s, s.replace("_", "-"), s.replace("-", "_")}
    return sorted(out)


def vocabulary(spec):
    """(task-ish words, collection-ish words) appearing anywhere in the script"""
    tw, cw = set(), set()

    def walk(sp):
        if "module" in sp:
            cw.add(sp["module"])
            if sp.get("fm_name"):
                cw.add(sp["fm_name"])
            if sp["ns"].get("name"):
                cw.add(sp["ns"]["name"])
            return walk(sp["ns"])
        for it in sp.get("items", []):
            if "task" in it:
                tw.add(it["task"]["name"])
                tw.update(it["task"].get("aliases", []))
                if it.get("bind"):
                    tw.add(it["bind"])
                tw.update(it.get("aliases") or [])
            else:
                if it["coll"].get("name"):
                    cw.add(it["coll"]["name"])
                if it.get("bind"):
                    cw.add(it["bind"])
                walk(it["coll"])
    walk(spec)
    return sorted(tw), sorted(cw)


def resolvable_names(d, prefix=""):
    """dotted names the dumped tree should resolve: primaries, aliases,
    collection names (default shortcuts), recursively"""
    out = []
    for k, _ in d["tasks"]:
        out.append(prefix + k)
    for k, _ in d["aliases"]:
        out.append(prefix + k)
    for k, sub_ in d["subs"]:
        out.append(prefix + k)
        out.extend(resolvable_names(sub_, prefix + k + "."))
    return out


def shrink_spec(spec):
    """smaller scripts: drop an item, drop config, hoist/shrink a sub-collection"""
    if "module" in spec:
        yield spec["ns"]                       # without the re-import
        if spec.get("ad") is not None:
            yield dict(spec, ad=None)
        for sm in shrink_spec(spec["ns"]):
            if sm.get("items"):
                yield dict(spec, ns=sm)
        return
    items = spec.get("items", [])
    for i in range(len(items)):
        yield dict(spec, items=items[:i] + items[i + 1:])
    if spec.get("config"):
        yield dict(spec, config={})
        cfg = spec["config"]
        for k in list(cfg):
            c2 = dict(cfg)
            del c2[k]
            yield dict(spec, config=c2)
        for k, v in cfg.items():
            if isinstance(v, dict) and "__tuple__" not in v:
                for k2 in list(v):
                    v2 = dict(v)
                    del v2[k2]
                    c2 = dict(cfg)
                    c2[k] = v2
                    yield dict(spec, config=c2)
    for i, it in enumerate(items):
        if "coll" in it:
            for sm in shrink_spec(it["coll"]):
                yield dict(spec, items=items[:i] + [dict(it, coll=sm)] + items[i + 1:])
        else:
            t = it["task"]
            if t.get("aliases"):
                yield dict(spec, items=items[:i] + [dict(it, task=dict(t, aliases=[]))] + items[i + 1:])
            if it.get("aliases"):
                yield dict(spec, items=items[:i] + [dict(it, aliases=[])] + items[i + 1:])
            if it.get("bind") is not None:
                yield dict(spec, items=items[:i] + [dict(it, bind=None)] + items[i + 1:])
