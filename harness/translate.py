"""Narrow, fail-closed AST translator (DESIGN 1.4).

Regenerates coq/Generated/Tables.v from /repo's *current* source on every run,
for a few declarative fragments where any textual change is a behavioural
change.  Each table is `option`: `Some <table>` when the fragment has exactly
the shape this translator knows, `None` (fallback) otherwise -- it never
guesses.  Property files state `match X_src with Some t => t = <model's table>
| None => True end`, so an edited fragment breaks a proof obligation, while an
unrecognised rewrite only falls back to the behavioural correspondence.
Expressions are normalised with ast.unparse (comments/formatting irrelevant).
"""
from __future__ import annotations

import ast
import os

from . import coqterm as ct

HERE = os.path.dirname(os.path.abspath(__file__))
OUT = os.path.join(os.path.dirname(HERE), "coq", "Generated", "Tables.v")


class Fallback(Exception):
    pass


def _func(tree, cls, name):
    for node in ast.walk(tree):
        if isinstance(node, ast.ClassDef) and node.name == cls:
            for x in node.body:
                if isinstance(x, (ast.FunctionDef,)) and x.name == name:
                    return x
    if cls is None:
        for x in tree.body:
            if isinstance(x, ast.FunctionDef) and x.name == name:
                return x
    raise Fallback("%s.%s not found" % (cls, name))


def _body(fn):
    """statements without docstring and without debug(...) calls"""
    out = []
    for st in fn.body:
        if isinstance(st, ast.Expr) and isinstance(st.value, ast.Constant) and isinstance(st.value.value, str):
            continue
        if isinstance(st, ast.Expr) and isinstance(st.value, ast.Call) and \
                isinstance(st.value.func, ast.Name) and st.value.func.id == "debug":
            continue
        out.append(st)
    return out


def merge_order(cfg):
    fn = _func(cfg, "Config", "merge")
    order = []
    for st in _body(fn):
        if not (isinstance(st, ast.Expr) and isinstance(st.value, ast.Call)):
            raise Fallback("merge: unexpected statement " + ast.unparse(st))
        call = st.value
        f = ast.unparse(call.func)
        if f == "self._set" and ast.unparse(call) == "self._set(_config={})":
            order.append("<reset>")
        elif f == "merge_dicts" and len(call.args) == 2 and ast.unparse(call.args[0]) == "self._config":
            a = ast.unparse(call.args[1])
            if not a.startswith("self._"):
                raise Fallback("merge: " + a)
            order.append(a[len("self._"):])
        elif f == "self._merge_file" and call.args and isinstance(call.args[0], ast.Constant):
            order.append("file:" + call.args[0].value)
        elif f == "obliterate" and ast.unparse(call) == "obliterate(self._config, self._deletions)":
            order.append("<obliterate deletions>")
        else:
            raise Fallback("merge: unexpected call " + ast.unparse(call))
    return order


def file_suffixes(cfg):
    fn = _func(cfg, "Config", "__init__")
    for node in ast.walk(fn):
        if isinstance(node, ast.Call) and ast.unparse(node.func) == "self._set":
            for kw in node.keywords:
                if kw.arg == "_file_suffixes":
                    if isinstance(kw.value, (ast.Tuple, ast.List)) and all(
                            isinstance(e, ast.Constant) and isinstance(e.value, str) for e in kw.value.elts):
                        return [e.value for e in kw.value.elts]
                    raise Fallback("_file_suffixes not a literal")
    raise Fallback("_file_suffixes not set")


def if_chain(stmts):
    """[(test text, body text)] for an if/elif/else chain that is the whole body"""
    if len(stmts) != 1 or not isinstance(stmts[0], ast.If):
        raise Fallback("not a single if-chain")
    out = []
    node = stmts[0]
    while True:
        out.append((ast.unparse(node.test), "; ".join(ast.unparse(s) for s in node.body)))
        if len(node.orelse) == 1 and isinstance(node.orelse[0], ast.If):
            node = node.orelse[0]
        else:
            if node.orelse:
                out.append(("else", "; ".join(ast.unparse(s) for s in node.orelse)))
            break
    return out


def cast_table(env):
    return if_chain(_body(_func(env, "Environment", "_cast")))


def to_env_var(env):
    b = _body(_func(env, "Environment", "_to_env_var"))
    if len(b) != 1 or not isinstance(b[0], ast.Return):
        raise Fallback("_to_env_var")
    return ast.unparse(b[0].value)


def finish_tail(run):
    """ordered (guard, raised class) after the try/finally of Runner._finish"""
    fn = _func(run, "Runner", "_finish")
    body = _body(fn)
    idx = [i for i, s in enumerate(body) if isinstance(s, ast.Try)]
    if len(idx) != 1:
        raise Fallback("_finish: try block")
    out = []
    for st in body[idx[0] + 1:]:
        if isinstance(st, ast.If) and len(st.body) == 1 and isinstance(st.body[0], ast.Raise) and not st.orelse:
            exc = st.body[0].exc
            name = ast.unparse(exc.func) if isinstance(exc, ast.Call) else ast.unparse(exc)
            out.append((ast.unparse(st.test), name))
        elif isinstance(st, ast.Assign):
            out.append(("<assign>", ast.unparse(st)))
        elif isinstance(st, ast.Return):
            out.append(("<return>", ast.unparse(st.value)))
        else:
            raise Fallback("_finish tail: " + ast.unparse(st))
    return out


def single_return(tree, cls, name):
    b = _body(_func(tree, cls, name))
    if len(b) != 1 or not isinstance(b[0], ast.Return):
        raise Fallback("%s.%s is not a single return" % (cls, name))
    return ast.unparse(b[0].value)


def hide_table(run):
    fn = _func(run, None, "normalize_hide")
    return [ast.unparse(s) for s in _body(fn)]


def join_timeout(run):
    return [ast.unparse(s) for s in _body(_func(run, "Runner", "_thread_join_timeout"))]


def update_config_table(prog):
    """Program.update_config as (test, assignment) pairs in statement order:
    ("<assign>", stmt) for plain assignments, ("<call>", stmt) for bare calls,
    (test, body) for an `if` without else whose body is simple statements."""
    fn = _func(prog, "Program", "update_config")
    out = []
    for st in _body(fn):
        if isinstance(st, ast.Assign):
            out.append(("<assign>", ast.unparse(st)))
        elif isinstance(st, ast.Expr) and isinstance(st.value, ast.Call):
            out.append(("<call>", ast.unparse(st)))
        elif isinstance(st, ast.If) and not st.orelse and \
                all(isinstance(b, (ast.Assign, ast.Expr)) for b in st.body):
            out.append((ast.unparse(st.test), "; ".join(ast.unparse(b) for b in st.body)))
        else:
            raise Fallback("update_config: unexpected statement " + ast.unparse(st)[:60])
    return out


def _opt(f, printer, *a):
    try:
        return "(Some %s)" % printer(f(*a)), None
    except Fallback as e:
        return "None", str(e)
    except Exception as e:  # unknown shape: never guess
        return "None", "%s: %s" % (type(e).__name__, e)


def _n(x):
    """one line, single spaces (multi-line statements would otherwise need escapes)"""
    return " ".join(x.split())


def _pairs(l):
    return ct.lst([ct.pair(ct.s(_n(a)), ct.s(_n(b))) for a, b in l])


def _strs(l):
    return ct.strs([_n(x) for x in l])


def _s(x):
    return ct.s(_n(x))


def regenerate(repo, out=None):
    """Rewrite coq/Generated/Tables.v if its content changed.  Returns {table: 'ok'|'fallback(reason)'}."""
    def parse(rel):
        with open(os.path.join(repo, rel)) as f:
            return ast.parse(f.read())
    status = {}
    lines = ["(* GENERATED by harness/translate.py from the working tree of the repository on every run. Do not edit. *)",
             "From Coq Require Import List String.", "Import ListNotations.", "Open Scope string_scope.", ""]
    try:
        cfg, env, run = parse("invoke/config.py"), parse("invoke/env.py"), parse("invoke/runners.py")
    except Exception as e:
        cfg = env = run = None
        status["parse"] = "fallback(%s)" % e
    tables = [
        ("merge_order_src", "option (list string)", merge_order, _strs, cfg),
        ("file_suffixes_src", "option (list string)", file_suffixes, _strs, cfg),
        ("cast_src", "option (list (string * string))", cast_table, _pairs, env),
        ("to_env_var_src", "option string", to_env_var, _s, env),
        ("finish_tail_src", "option (list (string * string))", finish_tail, _pairs, run),
        ("result_ok_src", "option string", lambda t: single_return(t, "Result", "ok"), _s, run),
        ("result_failed_src", "option string", lambda t: single_return(t, "Result", "failed"), _s, run),
        ("timed_out_src", "option string", lambda t: single_return(t, "Runner", "timed_out"), _s, run),
        ("normalize_hide_src", "option (list string)", hide_table, _strs, run),
        ("join_timeout_src", "option (list string)", join_timeout, _strs, run),
    ]
    for name, ty, f, pr, tree in tables:
        if tree is None:
            term, why = "None", "source does not parse"
        else:
            term, why = _opt(f, pr, tree)
        status[name] = "ok" if why is None else "fallback(%s)" % why
        lines.append("Definition %s : %s := %s." % (name, ty, term))
    # invoke/program.py (parsed on its own so that a problem there cannot affect the tables above)
    try:
        prog = parse("invoke/program.py")
        term, why = _opt(update_config_table, _pairs, prog)
    except Exception as e:
        term, why = "None", "source does not parse: %s" % e
    status["update_config_src"] = "ok" if why is None else "fallback(%s)" % why
    lines.append("Definition update_config_src : option (list (string * string)) := %s." % term)
    txt = "\n".join(lines) + "\n"
    out = out or OUT
    os.makedirs(os.path.dirname(out), exist_ok=True)
    old = open(out).read() if os.path.exists(out) else None
    if old != txt:
        with open(out, "w") as f:
            f.write(txt)
    return status


if __name__ == "__main__":
    import sys
    print(regenerate(sys.argv[1] if len(sys.argv) > 1 else "/repo"))
    print(open(OUT).read())
