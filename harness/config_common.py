"""Shared helpers of the config-family checks (C03, C06, C11): scratch file
system, script driver for real ``Config`` objects, schema-based generators of
type-consistent level contents, Coq term printers for coq/Model/ConfigModel.v.

Case format (JSON-able), shared by the three plug-ins:

  fs    : [[loc, sfx, entry], ...]   entry = {"data": tree} | {"empty": 1} | {"ioerr": 1}
          loc in sys/usr/projA/projB (file ``invoke.<sfx>`` / ``.invoke.<sfx>``) or a
          runtime stem rtA/rtB (file ``rt/<stem>.<sfx>``)
  init  : {"defaults": tree|None, "overrides": tree|None, "proj": loc|None,
           "rt": [stem, sfx]|None, "lazy": bool}
  ops   : [[name, ...], ...]  (see ``run_op``)
"""
import copy
import json
import keyword
import os
import re
import shutil
import tempfile
import types

from . import coqterm as ct
from . import gen_tree as gt


LEAF_TAGS = ("__tuple__", "__set__", "__bytes__")


def is_enc_leaf(x):
    """a JSON-encoded non-JSON leaf: tuple, set, bytearray"""
    return isinstance(x, dict) and len(x) == 1 and next(iter(x)) in LEAF_TAGS


def jsonable(x):
    """tuples, sets and bytearrays are not JSON: encode as one-key dicts"""
    if isinstance(x, dict):
        return {k: jsonable(v) for k, v in x.items()}
    if isinstance(x, tuple):
        return {"__tuple__": list(x)}
    if isinstance(x, (set, frozenset)):
        return {"__set__": sorted(x)}
    if isinstance(x, bytearray):
        return {"__bytes__": [chr(b) for b in x]}
    return x


def unjson(x):
    if isinstance(x, dict):
        if is_enc_leaf(x):
            tag, v = next(iter(x.items()))
            if tag == "__tuple__":
                return tuple(v)
            if tag == "__set__":
                return set(v)
            return bytearray("".join(v).encode())
        return {k: unjson(v) for k, v in x.items()}
    return x


def _uj(x):
    """JSON case value -> fresh Python value: never hand the case's own (list)
    objects to the code under test (leaf appends would rewrite the recorded input)."""
    return copy.deepcopy(unjson(x))


def _for_coq(x):
    """the model's leaves are None/bool/int/str/list/tuple: a set is shown as the
    sorted list of its elements, a bytearray as the list of its characters (both
    are mutable non-list leaves; the model needs no more than 'a mutable leaf')"""
    if isinstance(x, dict):
        return {k: _for_coq(v) for k, v in x.items()}
    if isinstance(x, (set, frozenset)):
        return sorted(x)
    if isinstance(x, bytearray):
        # elements: the generated one-character items and the three-character probes ("z07")
        return re.findall(r"z\d\d|.", x.decode(), re.S)
    return x


def leaf(rng, kind):
    """gt.leaf plus two mutable non-list kinds: e = set of strings, B = bytearray"""
    if kind == "e":
        return {"__set__": sorted(rng.sample(["a", "b", "c"], rng.randint(0, 2)))}
    if kind == "B":
        return {"__bytes__": list("ab"[:rng.randint(0, 2)])}
    return jsonable(gt.leaf(rng, kind))

SUFFIXES = ["yaml", "yml", "json", "py"]
SAFE_KEYS = ["a", "b", "c", "x", "y", "foo", "bar", "ab", "k", "n"]
ENV_VALUES = ["", "0", "1", "5", "-3", "007", "abc", "true", "x y"]

_scratch_root = None


def scratch_root():
    global _scratch_root
    if _scratch_root is None or not os.path.isdir(_scratch_root):
        _scratch_root = tempfile.mkdtemp(prefix="verif-cfg-%d-" % os.getpid(), dir="/tmp")
    return _scratch_root


def cleanup():
    global _scratch_root
    if _scratch_root is not None:
        shutil.rmtree(_scratch_root, ignore_errors=True)
        _scratch_root = None


# --------------------------------------------------------------------------
# file system
# --------------------------------------------------------------------------
BAD_CONTENT = {"yaml": "a: [1, 2\nb: {x\n", "yml": "key: 'unterminated\n  - x: [\n",
               "json": "{\"a\": 1,, }", "py": "def (:\n    a = = 1\n"}


def _py_source(data):
    return "".join("%s = %r\n" % (k, v) for k, v in data.items())


def file_path(root, loc, sfx):
    if loc == "sys":
        return os.path.join(root, "sys", "invoke." + sfx)
    if loc == "usr":
        return os.path.join(root, ".invoke." + sfx)
    if loc.startswith("proj"):
        return os.path.join(root, loc, "invoke." + sfx)
    return os.path.join(root, "rt", loc + "." + sfx)


def write_fs(root, fs):
    from invoke.util import yaml
    for d in ("sys", "usr", "projA", "projB", "rt"):
        os.makedirs(os.path.join(root, d), exist_ok=True)
    for loc, sfx, entry in fs:
        path = file_path(root, loc, sfx)
        if "ioerr" in entry:
            os.makedirs(path)            # open() -> IsADirectoryError (errno 21)
            continue
        if "loop" in entry:
            os.symlink(path, path)       # open() -> OSError ELOOP (errno 40); chmod 000 is no
            continue                     # obstacle for uid 0, a symlink loop is
        if "bad" in entry:               # exists, cannot be parsed by the loader of its suffix
            with open(path, "w") as f:
                f.write(BAD_CONTENT[sfx])
            continue
        if "empty" in entry:
            with open(path, "w") as f:
                if sfx == "json":
                    f.write("null")          # json.load -> None, like an empty YAML document
            continue
        data = _uj(entry["data"])
        with open(path, "w") as f:
            if sfx in ("yaml", "yml"):
                yaml.safe_dump(data, f, sort_keys=False, default_flow_style=False)
            elif sfx == "json":
                json.dump(data, f)
            else:
                f.write(_py_source(data))


def fs_entry_tree(entry):
    """the data a loader returns for an entry (None for an empty YAML file)"""
    if "empty" in entry:
        return None
    return _uj(entry["data"])


# --------------------------------------------------------------------------
# driving the real Config
# --------------------------------------------------------------------------
def stock_defaults():
    """Config.global_defaults() of the tree under test, minus the one entry that is
    not data (runners.local is a class object)"""
    from invoke.config import Config
    d = copy.deepcopy(Config.global_defaults())
    d.pop("runners", None)
    return jsonable(d)


def py_overlay(a, b):
    """harness-side deep union (b on top of a), for the effective defaults of a
    stock-defaults case only"""
    out = copy.deepcopy(a)
    for k, v in (b or {}).items():
        if isinstance(v, dict) and not is_enc_leaf(v) and isinstance(out.get(k), dict):
            out[k] = py_overlay(out[k], v)
        else:
            out[k] = copy.deepcopy(v)
    return out


def effective_init(init):
    """what the constructor's defaults level holds: with ``stock`` the class's own
    global_defaults() when no defaults are passed"""
    if not init.get("stock") or init.get("defaults") is not None:
        return init          # global_defaults() is used only when no defaults are passed
    return dict(init, defaults=stock_defaults())


def make_class(global_defaults=None, env_prefix=None, constant=False, stock=False):
    """``constant``: global_defaults() hands out one and the same dict object on
    every call (so that a caller mutating it becomes observable)"""
    from invoke.config import Config
    gd = {} if global_defaults is None else global_defaults

    if stock:
        class StockCfg(Config):
            prefix = "invoke"

            @staticmethod
            def global_defaults():
                d = Config.global_defaults()
                d.pop("runners", None)
                return d
        return StockCfg

    class Cfg(Config):
        prefix = "invoke"

        @staticmethod
        def global_defaults():
            return gd if constant else copy.deepcopy(gd)
    return Cfg


def _rec(v):
    """a returned value as recorded: deep-copied (a list leaf handed out by the cache must not stay
    aliased in the observation)"""
    return jsonable(copy.deepcopy(gt.deep_view(v)))


PATH_OPS = ("get", "set", "del", "pop", "popitem", "clear", "setdefault", "update",
            "contains", "len", "keys", "view", "eq", "getm", "update_both", "update_proxy",
            "rawset", "leafappend")


class Session:
    """One case: scratch dir with the files, a real Config, sources we hold."""

    def __init__(self, case, keep_sources=False):
        self.case = case
        self.root = tempfile.mkdtemp(dir=scratch_root())
        write_fs(self.root, case["fs"])
        self.saved_home = os.environ.get("HOME")
        os.environ["HOME"] = self.root      # "~" forms of prefixes / paths point into the scratch dir
        self.saved_env = None
        self.sources = []     # (label, live object, deep snapshot) for C11
        self.keep_sources = keep_sources
        self.cfg = None
        self.handles = {}     # held proxies: id -> DataProxy

    def close(self):
        if self.saved_home is None:
            os.environ.pop("HOME", None)
        else:
            os.environ["HOME"] = self.saved_home
        shutil.rmtree(self.root, ignore_errors=True)

    # -- data handed to the config: fresh objects, remembered for snapshots
    def supply(self, label, tree):
        obj = copy.deepcopy(_uj(tree))
        if self.keep_sources:
            self.sources.append((label, obj, copy.deepcopy(obj)))
        kind = self.case.get("init", {}).get("mapkind")
        if kind == "mp" and isinstance(obj, dict):
            return types.MappingProxyType(obj)      # a read-only Mapping that is not a dict
        if kind == "proxy" and isinstance(obj, dict) and obj:
            # a section of ANOTHER config: a DataProxy (Mapping-like, not a dict)
            other = make_class()(defaults={"s": obj}, lazy=True,
                                 system_prefix=os.path.join(self.root, "nosys") + os.sep,
                                 user_prefix=os.path.join(self.root, "nousr") + os.sep)
            return other["s"]
        return obj

    def rt_path(self, rt):
        if rt is None:
            return None
        if self.case.get("init", {}).get("tilde"):
            return "~/rt/%s.%s" % (rt[0], rt[1])
        return file_path(self.root, rt[0], rt[1])

    def proj_path(self, loc):
        if loc is None:
            return None
        if self.case.get("init", {}).get("tilde"):
            return "~/" + loc
        return os.path.join(self.root, loc)

    def construct(self):
        init = self.case["init"]
        kw = {"system_prefix": os.path.join(self.root, "sys") + os.sep,
              "user_prefix": self.root + os.sep + ".",
              "lazy": bool(init.get("lazy"))}
        if init.get("tilde"):
            del kw["user_prefix"]          # the default "~/." with HOME = scratch dir
        if init.get("defaults") is not None:
            kw["defaults"] = self.supply("init.defaults", init["defaults"])
        if init.get("overrides") is not None:
            kw["overrides"] = self.supply("init.overrides", init["overrides"])
        if init.get("proj") is not None:
            kw["project_location"] = self.proj_path(init["proj"])
        if init.get("rt") is not None:
            kw["runtime_path"] = self.rt_path(init["rt"])
        self.cfg = make_class(stock=bool(init.get("stock")))(**kw)
        return self.cfg

    # -- navigation: item or attribute syntax; steps known to succeed may use
    #    either syntax (no exception class involved)
    def nav(self, cfg, fl, kp, rng=None):
        obj = cfg
        for k in kp:
            use_attr = (fl == "attr")
            if rng is not None:
                try:
                    present = k in obj and hasattr(obj[k], "keys")
                except Exception:
                    present = False
                if present and rng.random() < 0.5:
                    use_attr = not use_attr
            obj = getattr(obj, k) if use_attr else obj[k]
        return obj

    def run_op(self, cfg, op, rng=None, base=None):
        """returns (cfg', outcome).  cfg' differs from cfg only for clone.
        ``base``: the held proxy a path operation is applied to (default: root)."""
        name = op[0]
        if name == "hold":       # ["hold", h, fl, kp]: h = c.<kp>
            self.handles[op[1]] = self.nav(cfg, op[2], op[3], rng)
            return cfg, {"none": 1}
        if name == "via":        # ["via", h, path-op]
            if op[1] not in self.handles or op[2][0] not in PATH_OPS:
                return cfg, {"none": 1}
            return self.run_op(cfg, op[2], rng, base=self.handles[op[1]])
        if name in PATH_OPS:
            fl, kp = op[1], op[2]
            obj = self.nav(cfg if base is None else base, fl, kp, rng)
            if name == "get":
                v = getattr(obj, op[3]) if fl == "attr" else obj[op[3]]
                return cfg, {"val": _rec(v)}
            if name == "set":
                v = self.supply("written", op[4]) if isinstance(op[4], dict) else _uj(op[4])
                if fl == "attr":
                    setattr(obj, op[3], v)
                else:
                    obj[op[3]] = v
                return cfg, {"none": 1}
            if name == "del":
                if fl == "attr":
                    delattr(obj, op[3])
                else:
                    del obj[op[3]]
                return cfg, {"none": 1}
            if name == "pop":
                if op[4] is None:
                    v = obj.pop(op[3])
                else:
                    v = obj.pop(op[3], _uj(op[4]["d"]))
                return cfg, {"val": _rec(v)}
            if name == "popitem":
                k, v = obj.popitem()
                return cfg, {"pair": [k, _rec(v)]}
            if name == "clear":
                obj.clear()
                return cfg, {"none": 1}
            if name == "setdefault":
                if op[4] is None:
                    v = obj.setdefault(op[3])
                else:
                    v = obj.setdefault(op[3], _uj(op[4]["d"]))
                return cfg, {"val": _rec(v)}
            if name == "update":
                kvs = [(k, _uj(v)) for k, v in op[3]]
                style = op[4] if len(op) > 4 else "dict"
                if style == "kwargs" and kvs:
                    obj.update(**dict(kvs))
                elif style == "pairs":
                    obj.update(kvs)
                elif style == "gen":            # one-shot iterators: consumed by the first pass over them
                    obj.update((k, v) for k, v in kvs)
                elif style == "zip":
                    obj.update(zip([k for k, _ in kvs], [v for _, v in kvs]))
                elif style == "iter":
                    obj.update(iter(kvs))
                elif style == "none" and not kvs:
                    obj.update()
                else:
                    obj.update(dict(kvs))
                return cfg, {"none": 1}
            if name == "contains":
                r = hasattr(obj, op[3]) if fl == "attr" else (op[3] in obj)
                return cfg, {"bool": bool(r)}
            if name == "len":
                return cfg, {"nat": len(obj)}
            if name == "keys":
                how = op[3] if len(op) > 3 else "keys"
                return cfg, {"keys": list(obj) if how == "iter" else list(obj.keys())}
            if name == "view":
                how = op[3]
                if how == "items":
                    v = dict(obj.items())
                elif how == "values":
                    v = dict(zip(obj.keys(), obj.values()))
                else:
                    v = obj
                return cfg, {"val": _rec(v)}
            if name == "eq":
                other = copy.deepcopy(gt.deep_view(obj))
                if not op[3]:
                    other["__other__"] = 1
                return cfg, {"bool": bool(obj == other)}
            if name == "getm":
                v = obj.get(op[3]) if op[4] is None else obj.get(op[3], _uj(op[4]["d"]))
                return cfg, {"val": _rec(v)}
            if name == "update_both":
                obj.update(dict((k, _uj(v)) for k, v in op[3]),
                           **dict((k, _uj(v)) for k, v in op[4]))
                return cfg, {"none": 1}
            if name == "update_proxy":
                src = self.nav(cfg, fl, op[3], rng)
                obj.update(src)
                return cfg, {"none": 1}
            if name == "rawset":
                how = op[6] if len(op) > 6 else "get"
                r = obj.setdefault(op[3]) if (how == "setdefault" and op[3] in obj) else obj.get(op[3])
                r[op[4]] = _uj(op[5])
                return cfg, {"none": 1}
            if name == "leafappend":
                lst = getattr(obj, op[3]) if fl == "attr" else obj[op[3]]
                if isinstance(lst, set):
                    lst.add(op[4])              # in-place edit of a mutable non-list leaf
                elif isinstance(lst, bytearray):
                    lst.extend(op[4].encode())
                else:
                    lst.append(op[4])
                return cfg, {"none": 1}
        if name == "load_defaults_d":
            cfg.load_defaults(self.supply("load_defaults", op[1]), merge=False)
        elif name == "load_overrides_d":
            cfg.load_overrides(self.supply("load_overrides", op[1]), merge=False)
        elif name == "load_collection_d":
            cfg.load_collection(self.supply("load_collection", op[1]), merge=False)
        elif name == "load_system_d":
            cfg.load_system(merge=False)
        elif name == "load_user_d":
            cfg.load_user(merge=False)
        elif name == "load_project_d":
            cfg.load_project(merge=False)
        elif name == "load_runtime_d":
            cfg.load_runtime(merge=False)
        elif name == "merge":
            cfg.merge()
        elif name == "load_defaults":
            cfg.load_defaults(self.supply("load_defaults", op[1]))
        elif name == "load_overrides":
            cfg.load_overrides(self.supply("load_overrides", op[1]))
        elif name == "load_collection":
            cfg.load_collection(self.supply("load_collection", op[1]))
        elif name == "load_shell_env":
            saved = dict(os.environ)
            try:
                os.environ.clear()
                os.environ.update(op[1])
                os.environ["HOME"] = self.root
                cfg.load_shell_env()
            finally:
                os.environ.clear()
                os.environ.update(saved)
        elif name == "load_system":
            cfg.load_system()
        elif name == "load_user":
            cfg.load_user()
        elif name == "load_project":
            cfg.load_project()
        elif name == "load_runtime":
            cfg.load_runtime()
        elif name == "set_project_location":
            cfg.set_project_location(self.proj_path(op[1]))
        elif name == "set_runtime_path":
            cfg.set_runtime_path(self.rt_path(op[1]))
        elif name == "clone":
            if op[1] is None:
                new = cfg.clone()
            else:
                new = cfg.clone(into=make_class(self.supply("into.global_defaults", op[1])))
            self.handles = {}     # held proxies belong to the object left behind
            return new, {"none": 1}
        else:
            raise ValueError("unknown op %r" % (op,))
        return cfg, {"none": 1}

    def try_op(self, cfg, op, rng=None):
        try:
            return self.run_op(cfg, op, rng)
        except Exception as e:       # noqa: the class name is the observation
            return cfg, {"err": type(e).__name__}


def abnormal(out):
    return "err" in out and out["err"] not in ("KeyError", "AttributeError")


def _attr_readable(obj, k):
    """attribute syntax is the documented alternative for keys that are identifiers
    and are not real attributes / methods of the proxy"""
    return (isinstance(k, str) and k.isidentifier() and not keyword.iskeyword(k)
            and not k.startswith("__") and k not in dir(type(obj))
            and k not in getattr(obj, "__dict__", {}))


def mixed_view(x, depth=0):
    """deep view of a DataProxy read through BOTH access syntaxes: every other key
    (by position + depth) by attribute when attribute syntax applies to it.  An
    AttributeError there is recorded as a value no model produces."""
    if hasattr(x, "keys") and callable(x.keys) and hasattr(x, "__getitem__"):
        out = {}
        for i, k in enumerate(list(x.keys())):
            if (i + depth) % 2 == 0 and hasattr(x, "_config") and _attr_readable(x, k):
                try:
                    v = getattr(x, k)
                except AttributeError as e:
                    v = "<AttributeError reading .%s: %s>" % (k, e)
            else:
                v = x[k]
            out[k] = mixed_view(v, depth + 1)
        return out
    return x


def view_of(cfg):
    # deep copy: list leaves of the cache must not stay aliased in the recorded observation
    return jsonable(copy.deepcopy(mixed_view(cfg)))


def sfx_of(path):
    if path is None:
        return None
    return os.path.splitext(str(path))[1].lstrip(".")


def level_view(x):
    """a level attribute as a tree (None -> None leaf, as an empty YAML file gives)"""
    return jsonable(copy.deepcopy(x))


# --------------------------------------------------------------------------
# schema-based generation of type-consistent contents
# --------------------------------------------------------------------------
def schema(rng, depth=3, width=3, keys=SAFE_KEYS, kinds="nbis", p_section=0.45):
    """a tree whose leaves are leaf-kind letters; fixes, for one case, which
    paths are sections and which are leaves"""
    n = rng.randint(1, width)
    out = {}
    for k in rng.sample(keys, min(n, len(keys))):
        if depth > 1 and rng.random() < p_section:
            out[k] = schema(rng, depth - 1, width, keys, kinds, p_section)
        else:
            out[k] = rng.choice(kinds)
    return out


def instance(rng, sch, p_keep=0.6, kinds=None, same_kind=0.92):
    """a random sub-tree of the schema with concrete leaf values; ``kinds``: the
    leaf kinds this level can hold (a tuple cannot be written to YAML/JSON: it
    becomes a list there)"""
    out = {}
    for k, v in sch.items():
        if rng.random() >= p_keep:
            continue
        if isinstance(v, dict):
            out[k] = instance(rng, v, p_keep, kinds, same_kind)
        else:
            kind = v if (kinds is None or rng.random() < same_kind) else rng.choice(kinds)
            if kinds is not None and kind not in kinds:
                kind = "l" if (kind == "t" and "l" in kinds) else rng.choice(kinds)
            out[k] = leaf(rng, kind)
    if rng.random() < 0.5:
        items = list(out.items())
        rng.shuffle(items)
        out = dict(items)
    return out


def schema_paths(sch, pre=()):
    """(path, is_section) for every path of the schema"""
    for k, v in sch.items():
        yield pre + (k,), isinstance(v, dict)
        if isinstance(v, dict):
            yield from schema_paths(v, pre + (k,))


def sch_kind(sch, p):
    for k in p:
        sch = sch[k]
    return sch


def env_for(rng, sch, p_set=0.4, prefix="INVOKE_", p_bad=0.03):
    """environment naming settings of the schema; values mostly convertible for
    the schema's leaf kind (conversion failures are C16's subject)"""
    env = {}
    for p, sec in schema_paths(sch):
        if not sec and rng.random() < p_set:
            kind = sch_kind(sch, p)
            if kind in "eB":
                continue       # type(old)(string) would "convert": outside the modelled casting table
            if rng.random() < p_bad:
                val = rng.choice(ENV_VALUES)
            elif kind == "i":
                val = rng.choice(["0", "1", "5", "-3", "007"])
            elif kind in "lt":
                continue
            else:
                val = rng.choice(ENV_VALUES)
            env[prefix + "_".join(p).upper()] = val
    for _ in range(rng.randint(0, 2)):
        env[prefix + rng.choice(["ZZZ", "A_Q", "NOPE"])] = rng.choice(ENV_VALUES)
    return env


# --------------------------------------------------------------------------
# Coq printers
# --------------------------------------------------------------------------
def c_tree(t):
    return ct.tree(_for_coq(_uj(t)))


def c_fentry(e):
    if "ioerr" in e or "loop" in e or "bad" in e:
        # exists but cannot be read (not openable / not parsable): the spec's "unreadable"
        return "FIOErr"
    if "empty" in e:        # empty YAML document or JSON null: the loader returns None
        return "(FData (Leaf VNone))"
    return "(FData %s)" % c_tree(e["data"])


def c_fs(fs):
    return ct.lst(["((%s, %s), %s)" % (ct.s(loc), ct.s(sfx), c_fentry(e)) for loc, sfx, e in fs])


def c_optstr(x):
    return ct.opt(None if x is None else ct.s(x))


def c_rt(rt):
    return ct.opt(None if rt is None else "(%s, %s)" % (ct.s(rt[0]), ct.s(rt[1])))


def c_init(init):
    """(defaults, overrides, proj_loc, rt, lazy) as a Coq tuple"""
    d = init.get("defaults")
    o = init.get("overrides")
    return "(mkInit %s %s %s %s %s)" % (
        c_tree(d if d is not None else {}), c_tree(o if o is not None else {}),
        c_optstr(init.get("proj")), c_rt(init.get("rt")), ct.b(bool(init.get("lazy"))))


def c_fl(fl):
    return "Attr" if fl == "attr" else "Item"


def c_path(p):
    return ct.strs(list(p))


def c_opt_tree(x):
    return ct.opt(None if x is None else c_tree(x["d"]))


def c_env(env):
    return ct.lst([ct.pair(ct.s(k), ct.s(v)) for k, v in env.items()])


def c_op(op):
    n = op[0]
    if n == "get":
        return "(Get %s %s %s)" % (c_fl(op[1]), c_path(op[2]), ct.s(op[3]))
    if n == "set":
        return "(SetV %s %s %s %s)" % (c_fl(op[1]), c_path(op[2]), ct.s(op[3]), c_tree(op[4]))
    if n == "del":
        return "(Del %s %s %s)" % (c_fl(op[1]), c_path(op[2]), ct.s(op[3]))
    if n == "pop":
        return "(Pop %s %s %s %s)" % (c_fl(op[1]), c_path(op[2]), ct.s(op[3]), c_opt_tree(op[4]))
    if n == "popitem":
        return "(PopItem %s %s)" % (c_fl(op[1]), c_path(op[2]))
    if n == "clear":
        return "(Clear %s %s)" % (c_fl(op[1]), c_path(op[2]))
    if n == "setdefault":
        return "(SetDefault %s %s %s %s)" % (c_fl(op[1]), c_path(op[2]), ct.s(op[3]), c_opt_tree(op[4]))
    if n == "update":
        kvs = ct.lst([ct.pair(ct.s(k), c_tree(v)) for k, v in op[3]])
        return "(Update %s %s %s)" % (c_fl(op[1]), c_path(op[2]), kvs)
    if n == "contains":
        return "(Contains %s %s %s)" % (c_fl(op[1]), c_path(op[2]), ct.s(op[3]))
    if n == "len":
        return "(Len %s %s)" % (c_fl(op[1]), c_path(op[2]))
    if n == "keys":
        return "(Keys %s %s)" % (c_fl(op[1]), c_path(op[2]))
    if n == "view":
        return "(View %s %s)" % (c_fl(op[1]), c_path(op[2]))
    if n == "eq":
        return "(EqD %s %s %s)" % (c_fl(op[1]), c_path(op[2]), ct.b(bool(op[3])))
    if n == "getm":
        return "(GetM %s %s %s %s)" % (c_fl(op[1]), c_path(op[2]), ct.s(op[3]), c_opt_tree(op[4]))
    if n == "update_both":
        f = lambda kvs: ct.lst([ct.pair(ct.s(k), c_tree(v)) for k, v in kvs])
        return "(UpdateBoth %s %s %s %s)" % (c_fl(op[1]), c_path(op[2]), f(op[3]), f(op[4]))
    if n == "update_proxy":
        return "(UpdateProxy %s %s %s)" % (c_fl(op[1]), c_path(op[2]), c_path(op[3]))
    if n == "rawset":
        return "(RawSet %s %s %s %s %s)" % (c_fl(op[1]), c_path(op[2]), ct.s(op[3]), ct.s(op[4]), c_tree(op[5]))
    if n == "leafappend":
        return "(LeafAppend %s %s %s %s)" % (c_fl(op[1]), c_path(op[2]), ct.s(op[3]), ct.s(op[4]))
    if n == "load_defaults_d":
        return "(LoadDefaultsD %s)" % c_tree(op[1])
    if n == "load_overrides_d":
        return "(LoadOverridesD %s)" % c_tree(op[1])
    if n == "load_collection_d":
        return "(LoadCollectionD %s)" % c_tree(op[1])
    if n in ("load_system_d", "load_user_d", "load_project_d", "load_runtime_d"):
        return {"load_system_d": "LoadSystemD", "load_user_d": "LoadUserD",
                "load_project_d": "LoadProjectD", "load_runtime_d": "LoadRuntimeD"}[n]
    if n == "merge":
        return "Merge"
    if n == "load_defaults":
        return "(LoadDefaults %s)" % c_tree(op[1])
    if n == "load_overrides":
        return "(LoadOverrides %s)" % c_tree(op[1])
    if n == "load_collection":
        return "(LoadCollection %s)" % c_tree(op[1])
    if n == "load_shell_env":
        return "(LoadShellEnv %s)" % c_env(op[1])
    if n == "load_system":
        return "LoadSystem"
    if n == "load_user":
        return "LoadUser"
    if n == "load_project":
        return "LoadProject"
    if n == "load_runtime":
        return "LoadRuntime"
    if n == "set_project_location":
        return "(SetProjectLocation %s)" % c_optstr(op[1])
    if n == "set_runtime_path":
        return "(SetRuntimePath %s)" % c_rt(op[1])
    if n == "clone":
        return "(Clone %s)" % ct.opt(None if op[1] is None else c_tree(op[1]))
    raise ValueError(op)


def c_ops(ops):
    return ct.lst([c_op(o) for o in ops])


def c_sop(op):
    if op[0] == "hold":
        return "(Hold %s %s %s)" % (ct.n(op[1]), c_fl(op[2]), c_path(op[3]))
    if op[0] == "via":
        return "(Via %s %s)" % (ct.n(op[1]), c_op(op[2]))
    return "(Plain %s)" % c_op(op)


def c_sops(ops):
    return ct.lst([c_sop(o) for o in ops])


def c_outcome(o):
    if "err" in o:
        return "(OErr %s)" % ct.err(o["err"])
    if "none" in o:
        return "ONone"
    if "val" in o:
        return "(OVal %s)" % c_tree(o["val"])
    if "pair" in o:
        return "(OPair %s %s)" % (ct.s(o["pair"][0]), c_tree(o["pair"][1]))
    if "bool" in o:
        return "(OBool %s)" % ct.b(o["bool"])
    if "nat" in o:
        return "(ONat %s)" % ct.n(o["nat"])
    if "keys" in o:
        return "(OKeys %s)" % ct.strs(o["keys"])
    raise ValueError(o)


# --------------------------------------------------------------------------
# shrinking helpers
# --------------------------------------------------------------------------
def shrink_tree(t):
    if not isinstance(t, dict) or is_enc_leaf(t):
        return
    for k in list(t):
        t2 = dict(t)
        del t2[k]
        yield t2
    for k, v in t.items():
        if isinstance(v, dict) and not is_enc_leaf(v):
            for v2 in shrink_tree(v):
                t2 = dict(t)
                t2[k] = v2
                yield t2


def shrink_common(case):
    """drop ops, drop files, shrink trees inside init/ops/files"""
    ops = case["ops"]
    for i in range(len(ops)):
        yield dict(case, ops=ops[:i] + ops[i + 1:])
    fs = case["fs"]
    for i in range(len(fs)):
        yield dict(case, fs=fs[:i] + fs[i + 1:])
    for key in ("defaults", "overrides"):
        t = case["init"].get(key)
        if isinstance(t, dict):
            for t2 in shrink_tree(t):
                yield dict(case, init=dict(case["init"], **{key: t2}))
    for i, (loc, sfx, e) in enumerate(fs):
        if "data" in e:
            for t2 in shrink_tree(e["data"]):
                yield dict(case, fs=fs[:i] + [[loc, sfx, {"data": t2}]] + fs[i + 1:])
    for i, op in enumerate(ops):
        if op[0] in ("load_defaults", "load_overrides", "load_collection", "load_defaults_d",
                     "load_overrides_d", "load_collection_d") and isinstance(op[1], dict):
            for t2 in shrink_tree(op[1]):
                yield dict(case, ops=ops[:i] + [[op[0], t2]] + ops[i + 1:])
        if op[0] == "load_shell_env":
            for k in list(op[1]):
                e2 = dict(op[1])
                del e2[k]
                yield dict(case, ops=ops[:i] + [[op[0], e2]] + ops[i + 1:])
        if op[0] == "set" and isinstance(op[4], dict):
            for t2 in shrink_tree(op[4]):
                yield dict(case, ops=ops[:i] + [op[:4] + [t2]] + ops[i + 1:])
