"""Generators for nested config dicts."""
import random

KEYS = ["a", "b", "a_b", "b_c", "c", "A", "ab", "x", "foo", "foo_bar", "bar", "a_b_c", "_a", "a_"]


def leaf(rng, kinds="nbis"):
    k = rng.choice(kinds)
    if k == "n":
        return None
    if k == "b":
        return rng.random() < 0.5
    if k == "i":
        return rng.choice([0, 1, -3, 7, 42, 1000])
    if k == "s":
        return rng.choice(["", "v", "hello", "0", "x y"])
    if k == "l":
        return [rng.choice(["p", "q"]) for _ in range(rng.randint(0, 2))]
    if k == "t":
        return tuple(rng.choice(["p", "q"]) for _ in range(rng.randint(0, 2)))
    raise ValueError(k)


def tree(rng, depth=3, width=3, keys=KEYS, kinds="nbis", p_section=0.4, allow_empty=True):
    n = rng.randint(0 if allow_empty else 1, width)
    out = {}
    for k in rng.sample(keys, min(n, len(keys))):
        if depth > 1 and rng.random() < p_section:
            out[k] = tree(rng, depth - 1, width, keys, kinds, p_section, allow_empty)
        else:
            out[k] = leaf(rng, kinds)
    return out


def deep_view(x):
    """plain-dict deep copy of a DataProxy/dict, order preserved"""
    if hasattr(x, "keys") and callable(x.keys) and hasattr(x, "__getitem__"):
        return {k: deep_view(x[k]) for k in x.keys()}
    return x


def jsonable(x):
    """tuples are not JSON: encode as {"__tuple__": [...]}"""
    if isinstance(x, dict):
        return {k: jsonable(v) for k, v in x.items()}
    if isinstance(x, tuple):
        return {"__tuple__": list(x)}
    return x


def unjson(x):
    if isinstance(x, dict):
        if set(x.keys()) == {"__tuple__"}:
            return tuple(x["__tuple__"])
        return {k: unjson(v) for k, v in x.items()}
    return x


def leaf_paths(t, pre=()):
    if isinstance(t, dict):
        for k, v in t.items():
            yield from leaf_paths(v, pre + (k,))
    else:
        yield pre, t
