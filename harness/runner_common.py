"""Scripted driver of the REAL invoke.runners.Runner code (C02, C13, C08, C14).

`ScriptedRunner` subclasses `Runner` (as tests/_util._Dummy does) and implements
only the OS-facing primitives -- start, read_proc_stdout/stderr,
_write_proc_stdin, close_proc_stdin, process_is_finished, returncode, kill --
each answered by an `Env` holding a totally ordered event script.  Everything
else (run, _run_body, _finish, wait, has_dead_threads, _thread_join_timeout,
create_io_threads, _handle_output, read_proc_output, decode, respond,
handle_stdin, read_our_stdin, start_timer, timed_out, stop, Promise.join,
ExceptionHandlingThread) is the code in VERIF_REPO.

Events (released one at a time by a driver thread; the next one is released
only after the previous one was consumed by the thread it addresses):

  ["out", [b...]] / ["err", [b...]]   the next read on that stream returns these bytes
                                       (empty list = EOF = empty read)
  ["in", unit]                         the next read of the input stream returns this unit
                                       (str for text-mode streams, [b] for byte-mode); until
                                       then the stream is "not ready" (read_our_stdin -> None)
  ["in_eof"]                           input stream exhausted (every later read returns empty)
  ["exit", code]                       the process ends; consumed when the wait loop sees it
  ["timer"]                            the timeout timer expires (its function runs, then the
                                       timer thread is no longer alive)
  ["exc", who] / ["werr", who] / ["exc_base", who]
                                       the next gate call of worker who in out|err|in raises
                                       OhNoz / WatcherError / SystemExit; consumed when that thread is dead
  ["kbd"]                              KeyboardInterrupt out of the next process_is_finished poll

After the last event the script is "drained": readers get EOF, unless the stream
is listed in case["never_eof"] (a descendant keeps the pipe open).

  ["in_wait", n]                       (only with a real in_stream object, see run_scripted) nothing is
                                       released: the driver waits until the stdin worker has written at
                                       least n bytes to the child's stdin (or closed it, or ended)

Opt-in per case (C14): case["pending_at_timer"] -- the in/in_eof events directly after a
timer event are input already queued when the timer fires (released atomically with the
expiry); case["real_kill"] -- kill() is the real Local.kill, run on a stand-in child process
whose stdin pipe object is the scripted child-stdin sink.  Without them nothing changes.

Opt-in per case (C14, the age of the command): case["record_sleeps"] -- every duration the thread that
calls run() passes to time.sleep is recorded (obs["wait_sleeps"], run-length [[seconds, count], ...]: the wait
loop's pauses between two looks at the process); the thread then really sleeps min(requested, case["pace"])
seconds, so what the code is TOLD to use (case["input_sleep"], the runner's input_sleep attribute, default
the scripted runner's 0.5 ms) is decoupled from the wall time of the check; driver event
  ["idle", n]                          nothing is released: the command just keeps running until the wait loop
                                       has made n more iterations (n more sleeps); skipped once the loop is left

Opt-in per case (C08): case["glue"] = [i, ...] -- event i+1 happens in the same poll interval of the
wait loop as event i (kinds out/err/exc/werr/exc_base/exit/timer): the thread executing run()/join() is
held in the wait loop's time.sleep (time.sleep dispatcher, registered threads only) while the whole group
is delivered; if that thread has left the wait loop the group is delivered one event at a time as usual.

Only in the harness process: threading.Timer and invoke.terminals.ready_for_reading
(plus their `from ... import` copies in invoke.runners, if any) are replaced by
dispatchers that behave as the originals except for objects belonging to a
ScriptedRunner (scripted Timer, scripted readiness).
"""
from __future__ import annotations

import collections
import io
import os
import sys
import threading
import time

class Limits:
    """Bounded waits.  A scripted run normally takes milliseconds (plus 1 s per
    dead-sibling join timeout), so a run that is still going after `run` seconds
    is reported as a hang -- an observation, never a stuck check.  Every hang
    halves the bounds (down to the floors) and after `max_hangs` hangs in one
    process the remaining cases of the main batch are not run at all but
    reported as hangs (the verdict is a VIOLATION anyway)."""
    run = float(os.environ.get("VERIF_RUN_TIMEOUT", "10"))      # run()/join() must end within
    step = float(os.environ.get("VERIF_STEP_TIMEOUT", "5"))    # one event must be consumed within
    run_floor, step_floor = 2.5, 1.0
    hangs = 0
    max_hangs = 10
    skip_when_exhausted = True

    @classmethod
    def note_hang(cls):
        cls.hangs += 1
        cls.run = max(cls.run_floor, cls.run / 2)
        cls.step = max(cls.step_floor, cls.step / 2)

    @classmethod
    def exhausted(cls):
        return cls.skip_when_exhausted and cls.hangs >= cls.max_hangs


class ShrinkBudget:
    """plug-ins call .ok() from shrink_candidates: shrinking a hanging case costs
    seconds per candidate, so it gets a wall-clock budget"""

    def __init__(self, seconds=90.0):
        self.seconds, self.t0 = seconds, None

    def ok(self):
        Limits.skip_when_exhausted = False
        if self.t0 is None:
            self.t0 = time.time()
        return time.time() - self.t0 < self.seconds


class ExtraBudget:
    """Wall-clock cap for the property-specific extra checks of the QUICK tier.  Items marked
    optional (further repetitions of a class that has already run once, reproductions of known
    findings) are skipped once the budget is used up; every skip is recorded and ends up in the
    evidence note -- a skipped item is never counted as a pass."""

    def __init__(self, tier, seconds=40.0):
        self.limit = seconds if tier == "quick" else float("inf")
        self.t0 = time.time()
        self.skipped = []

    def elapsed(self):
        return time.time() - self.t0

    def allow(self, label):
        if self.elapsed() > self.limit:
            self.skipped.append(label)
            return False
        return True

    def note(self):
        if not self.skipped:
            return ""
        kinds = {}
        for s in self.skipped:
            kinds[s] = kinds.get(s, 0) + 1
        return " [skipped for time after %.0f s of extra checks: %s]" % (
            self.limit, ", ".join("%s x%d" % kv for kv in sorted(kinds.items())))


class Phases:
    """where the wall time of a check went (reported as an extra-check entry, so a slow run can be
    explained afterwards: proof build / waiting for the shared build lock, scripted cases, shards, extras)"""

    def __init__(self):
        self.marks = []

    def mark(self, name):
        self.marks.append((name, time.time()))

    def entry(self):
        parts = []
        for (a, ta), (b, tb) in zip(self.marks, self.marks[1:]):
            parts.append("%s %.1fs" % (a, tb - ta))
        return {"name": "timing", "evaluations": 0, "failures": [],
                "note": "wall time by phase: " + ", ".join(parts)}


class HarnessAbort(BaseException):
    """raised out of every gate once the harness gave up on a run"""


class OhNoz(Exception):
    pass


class Recorder:
    """out_stream / err_stream stand-in: records writes; `delay` makes it a slow consumer.
    With `encoding` the object advertises `.encoding` / `.errors` like a real text stream
    (without it there are no such attributes at all); what is recorded is the text handed to write()."""

    def __init__(self, delay=0.0, encoding=None, errors=None):
        self.writes = []
        self.flushes = 0
        self.delay = delay
        self.lock = threading.Lock()
        if encoding is not None:
            self.encoding = encoding
            self.errors = errors if errors is not None else "strict"

    def write(self, s):
        if self.delay:
            time.sleep(self.delay)
        with self.lock:
            self.writes.append(s)
        return len(s)

    def flush(self):
        self.flushes += 1

    def text(self):
        return "".join(self.writes)


class WrapRecorder(io.TextIOWrapper):
    """a REAL text stream as mirror target: io.TextIOWrapper over a BytesIO with its own error handler.
    text() = the bytes the wrapper produced, decoded back with its encoding -- i.e. what the stream made of
    the text it was handed (characters it cannot represent appear as the handler's escapes)."""

    def __init__(self, encoding, errors="backslashreplace"):
        self._verif_raw = io.BytesIO()
        super().__init__(self._verif_raw, encoding=encoding, errors=errors, newline="", write_through=True)

    def text(self):
        self.flush()
        return self._verif_raw.getvalue().decode(self.encoding)


def mirror_stream(encoding=None, wrap=False, delay=0.0):
    """recording mirror stream for run_scripted: plain Recorder (no .encoding), Recorder advertising
    an encoding, or (wrap) a real TextIOWrapper(errors='backslashreplace')"""
    if wrap and encoding is not None:
        return WrapRecorder(encoding)
    return Recorder(delay, encoding=encoding)


class FakeTimer:
    """threading.Timer stand-in whose expiry is an event of the script"""

    def __init__(self, interval, function, args=None, kwargs=None):
        self.interval = interval
        self.function = function
        self.started = False
        self.cancelled = False
        self.fired = False
        self.env = function.__self__._verif_env
        self.env.timer = self

    def start(self):
        self.started = True
        with self.env.cv:
            self.env.cv.notify_all()

    def cancel(self):
        self.cancelled = True

    def is_alive(self):
        return self.started and not self.fired and not self.cancelled

    def join(self, timeout=None):
        pass

    def fire(self):
        """what the timer thread does at expiry"""
        if self.started and not self.cancelled and not self.fired:
            try:
                self.function()
            finally:
                self.fired = True
            return True
        return False


_RealTimer = threading.Timer


class _TimerDispatch(_RealTimer):
    """threading.Timer in the harness process: a scripted timer for timers whose function belongs to a
    ScriptedRunner, the real thing for everybody else.  Installed on the `threading` module itself, so
    the code under test may reach Timer through any import style."""

    def __new__(cls, interval, function, *a, **kw):
        owner = getattr(function, "__self__", None)
        if getattr(owner, "_verif_env", None) is not None:
            return FakeTimer(interval, function)          # not an instance of cls: __init__ is not run
        obj = _RealTimer.__new__(_RealTimer)
        _RealTimer.__init__(obj, interval, function, *a, **kw)
        return obj


_installed = False


def install():
    """idempotent; harness process only.  Patches at the source (threading.Timer,
    invoke.terminals.ready_for_reading) and, only where such a name exists, the copies that
    `from x import y` left in invoke.runners -- no import style of runners.py is assumed."""
    global _installed
    import invoke.runners as R
    import invoke.terminals as T
    if _installed and threading.Timer is _TimerDispatch:
        return
    threading.Timer = _TimerDispatch
    if getattr(R, "Timer", None) is _RealTimer:
        R.Timer = _TimerDispatch
    orig_ready = T.ready_for_reading

    def ready_for_reading(input_):
        if isinstance(input_, ScriptedIn):
            return input_.env.in_ready()
        return orig_ready(input_)
    ready_for_reading._verif_orig = orig_ready
    T.ready_for_reading = ready_for_reading
    if getattr(R, "ready_for_reading", None) is orig_ready:
        R.ready_for_reading = ready_for_reading
    _installed = True


_real_sleep = time.sleep
_sleep_ctx = {}          # ident of a thread that calls run() for a sleep-recording case -> its Env


def _sleep_dispatch(secs):
    """time.sleep in the harness process once a case asked for record_sleeps: the original for everybody
    except (a) the thread that calls run() of such a case -- the requested duration is recorded, the real
    pause is at most env.sleep_pace -- and (b) that runner's worker threads (real pause capped the same way,
    nothing recorded)."""
    env = _sleep_ctx.get(threading.get_ident())
    if env is not None:
        env.wait_sleeps.append(secs)
    elif _sleep_ctx:
        kw = getattr(threading.current_thread(), "kwargs", None)
        tgt = kw.get("target") if isinstance(kw, dict) else None
        env = getattr(getattr(tgt, "__self__", None), "_verif_env", None)
        if env is not None and env.sleep_pace is None:
            env = None
    if env is None:
        return _real_sleep(secs)
    try:
        capped = secs > env.sleep_pace
    except TypeError:
        capped = False
    return _real_sleep(env.sleep_pace if capped else secs)


def install_sleep_recorder():
    """idempotent; patches time.sleep at the source (and a `from time import sleep` copy in invoke.runners,
    if there is one)"""
    import invoke.runners as R
    if time.sleep is not _sleep_dispatch:
        time.sleep = _sleep_dispatch
    if getattr(R, "sleep", None) is _real_sleep:
        R.sleep = _sleep_dispatch


def run_lengths(xs):
    out = []
    for x in xs:
        if out and out[-1][0] == x:
            out[-1][1] += 1
        else:
            out.append([x, 1])
    return out


# optional (C08, cases with "glue"): the thread executing run()/join() of such a case is registered here;
# whenever it calls time.sleep (the wait loop's pause between two polls) the driver may keep it there
_parkers = {}
_park_prev = [None]


def _park_dispatch(secs):
    env = _parkers.get(threading.get_ident())
    if env is not None:
        env.park()
    return _park_prev[0](secs)


def install_park():
    """idempotent; only called for cases with "glue".  time.sleep in the harness process becomes a
    dispatcher that behaves as whatever was installed before except for registered threads (patched at
    the source, plus a `from time import sleep` copy in invoke.runners if there is one)."""
    import invoke.runners as R
    if time.sleep is not _park_dispatch:
        prev = time.sleep
        _park_prev[0] = prev
        time.sleep = _park_dispatch
        if getattr(R, "sleep", None) is prev:
            R.sleep = _park_dispatch


class ScriptedIn:
    """in_stream stand-in.  mode 'text' returns str units, 'bytes' returns bytes
    units (which read_our_stdin decodes one read at a time).  No fileno, so
    bytes_to_read() == 1 and character_buffered() does not touch termios."""

    def __init__(self, env, mode="text", tty=False):
        self.env, self.mode, self.tty = env, mode, tty

    def isatty(self):
        return self.tty

    def read(self, n=-1):
        return self.env.read_in(self.mode)


class Env:
    def __init__(self, events, never_eof=(), reap_echild=False, pending_at_timer=False, real_kill=False,
                 glue=()):
        self.cv = threading.Condition()
        # optional (C08): indices i such that event i+1 happens in the same poll interval as event i (no
        # iteration of the wait loop in between) -- see _deliver_burst.  Empty: nothing changes.
        self.glue = set(int(i) for i in glue)
        self.hold_sleep = False       # the driver asks the main thread to stay in the wait loop's sleep
        self.parked = False           # ... and it is there now
        self.bursts = []              # [first, last] of every group that was delivered atomically
        self.events = [list(e) for e in events]
        self.never_eof = set(never_eof)
        self.reap_echild = reap_echild
        # optional (C14): the in/in_eof events directly after a timer event are input that is already
        # queued when the timer fires (released atomically with the expiry, like the burst after an exit)
        self.pending_at_timer = pending_at_timer
        # optional (C14): kill() runs the REAL Local.kill against a stand-in child (see ScriptedRunner.kill)
        self.real_kill = real_kill
        self.wait_sleeps = []         # (record_sleeps) durations the thread calling run() passed to time.sleep
        self.sleep_pace = None        # (record_sleeps) real seconds slept per requested sleep, at most
        self.idle_done = 0            # iterations of the wait loop that ["idle", n] events waited for
        self.kill_errors = []         # exceptions out of the timer's function (a real Timer thread dies of them)
        self.kills_ineffective = 0    # real_kill: the stand-in child survived kill()
        self.avail = {"out": collections.deque(), "err": collections.deque(), "in": collections.deque()}
        self.in_eof = False
        self.exc_pending = {}
        self.kbd_pending = []
        self.exited = None            # exit code once the process has ended
        self.exit_observed = False    # the wait loop saw it (pty: reaped)
        self.polls = 0
        self.left_wait = False        # program_finished was set
        self.drained = False
        self.abort = False
        self.started = False
        self.threads = None
        self.timer = None
        self.kills = 0
        self.kills_after_exit = 0
        self.stdin_writes = []
        self.stdin_closes = 0
        self.stdin_log = []            # order of writes (by writer) and closes on the child's stdin
        self.stop_calls = 0
        self.hang = None              # description of the first thing that did not happen in time
        self.consumed = []            # indices of events in consumption order
        self.skipped = []             # events nobody could consume any more
        self.run_done = False
        self.driver = None
        self.in_seen_eof = False
        self.never_ended = False
        self.prereleased = set()
        self.kbd_after_reap = False
        self.waiting = {"out": False, "err": False}
        self.joining = None          # worker the main thread is currently joining
        self.joins = []              # (who, timeout) of every join call
        self.call_done = False
        self.certain_hang = None
        self.after_exit = False

    # ---- helpers (call with cv held) -------------------------------------
    def _worker(self, who):
        if not self.threads:
            return None
        for target, t in self.threads.items():
            if target.__name__ == {"out": "handle_stdout", "err": "handle_stderr", "in": "handle_stdin"}[who]:
                return t
        return None

    def _worker_gone(self, who):
        """worker cannot consume anything any more (absent, or started and ended)"""
        if self.threads is None:
            return False
        t = self._worker(who)
        if t is None:
            return True
        return t.ident is not None and not t.is_alive()

    def _check_abort(self):
        if self.abort:
            raise HarnessAbort()

    # ---- gates called by the code under test ------------------------------
    def read_proc(self, who):
        with self.cv:
            deadline = time.time() + Limits.run * 2
            while True:
                self._check_abort()
                if who in self.exc_pending:
                    exc = self.exc_pending.pop(who)
                    self.cv.notify_all()
                    raise exc
                if self.avail[who]:
                    idx, data = self.avail[who].popleft()
                    self.consumed.append(idx)
                    self.waiting[who] = False
                    self.cv.notify_all()
                    return data
                if self.drained and who not in self.never_eof:
                    self.waiting[who] = False
                    return b""
                if time.time() > deadline:
                    raise HarnessAbort()
                if not self.waiting[who]:
                    self.waiting[who] = True
                    self.cv.notify_all()
                self.cv.wait(0.05)

    def in_ready(self):
        with self.cv:
            self._check_abort()
            return bool(self.avail["in"]) or self.in_eof or "in" in self.exc_pending

    def read_in(self, mode):
        with self.cv:
            self._check_abort()
            if "in" in self.exc_pending:
                exc = self.exc_pending.pop("in")
                self.cv.notify_all()
                raise exc
            if self.avail["in"]:
                idx, data = self.avail["in"].popleft()
                self.consumed.append(idx)
                self.cv.notify_all()
                return data
            if self.in_eof:
                self.in_seen_eof = True
                self.cv.notify_all()
            return "" if mode == "text" else b""

    def poll(self):
        with self.cv:
            self._check_abort()
            self.polls += 1
            self.cv.notify_all()
            if self.kbd_pending:
                idx = self.kbd_pending.pop(0)
                self.consumed.append(idx)
                raise KeyboardInterrupt()
            if self.exited is not None:
                if self.exit_observed and self.reap_echild:
                    raise ChildProcessError(10, "No child processes")
                self.exit_observed = True
                if self.kbd_after_reap:
                    # ^C delivered inside the poll right after it saw (reaped) the exit, before it returns
                    self.kbd_after_reap = False
                    raise KeyboardInterrupt()
                return True
            return False

    def kill(self, effective=True):
        with self.cv:
            self.kills += 1
            if self.exited is None:
                if effective:
                    self.exited = -9
                else:
                    self.kills_ineffective += 1     # (real_kill only) the command keeps running
            else:
                self.kills_after_exit += 1
            self.cv.notify_all()

    # ---- driver ------------------------------------------------------------
    def _wait(self, pred):
        """wait (cv held) until pred() or abort; False on timeout"""
        deadline = time.time() + Limits.step
        while not pred():
            if self.abort or self.run_done:
                return True
            if time.time() > deadline:
                return False
            self.cv.wait(0.02)
        return True

    def _past_wait(self):
        """the main thread has left the wait loop (normally visible as program_finished.set())"""
        return self.left_wait or bool(self.joins) or self.call_done

    def _quiescent(self, polls0):
        """the main thread has reacted to everything delivered so far"""
        if self.call_done or self.run_done or self.abort:
            return True
        if not self._past_wait():
            return self.polls > polls0            # a full wait-loop iteration since
        k = self.joining
        if k in ("out", "err"):
            t = self._worker(k)
            return t is not None and t.is_alive() and self.waiting[k] and not self.avail[k] \
                and k not in self.exc_pending
        return False                              # between joins / joining stdin: transient

    def _settle(self):
        p0 = self.polls
        deadline = time.time() + Limits.step
        while not self._quiescent(p0):
            if time.time() > deadline:
                return False
            self.cv.wait(0.002)
        return True

    def drive(self):
        with self.cv:
            # nothing happens before the workers exist
            if not self._wait(lambda: self.threads is not None):
                self.hang = self.hang or "workers never created"
                return
            burst_end = -1
            for idx, ev in enumerate(self.events):
                if self.abort or self.run_done:
                    break
                kind = ev[0]
                ok = True
                if idx <= burst_end:
                    continue                      # delivered as part of a burst
                if idx in self.glue and (idx == 0 or idx - 1 not in self.glue):
                    last = idx
                    while last in self.glue and last + 1 < len(self.events):
                        last += 1
                    r = self._deliver_burst(idx, last)
                    if r is not None:
                        burst_end = last
                        if not r:
                            self.hang = self.hang or ("burst %d..%d not consumed" % (idx, last))
                            break
                        if not self._settle():
                            self.hang = self.hang or ("after burst %d..%d the main thread neither waits nor "
                                                      "finishes" % (idx, last))
                            break
                        continue
                    # the main thread is past its wait loop: nothing polls any more, one event at a time
                if kind in ("out", "err"):
                    if self._worker_gone(kind):
                        self.skipped.append(idx)
                        continue
                    self.avail[kind].append((idx, bytes(ev[1])))
                    self.cv.notify_all()
                    ok = self._wait(lambda: idx in self.consumed or self._worker_gone(kind))
                elif kind in ("in", "in_eof") and (idx in self.prereleased or self.after_exit):
                    # part of the burst released with the exit event; later input is never read
                    if idx not in self.prereleased:
                        self.skipped.append(idx)
                    continue
                elif kind == "in":
                    if self._worker_gone("in"):
                        self.skipped.append(idx)
                        continue
                    unit = ev[1] if isinstance(ev[1], str) else bytes(ev[1])
                    self.avail["in"].append((idx, unit))
                    self.cv.notify_all()
                    ok = self._wait(lambda: idx in self.consumed or self._worker_gone("in"))
                elif kind == "in_wait":
                    # real input stream object (run_scripted(in_stream=...)): the stdin worker reads on its
                    # own; let it get this far before the next event
                    need = int(ev[1])
                    ok = self._wait(lambda: sum(len(b) for w, b in self.stdin_writes if w == "in") >= need
                                    or self.stdin_closes > 0 or self._worker_gone("in"))
                    self.consumed.append(idx)
                elif kind == "idle":
                    # the command keeps running: n more iterations of the wait loop (needs record_sleeps)
                    need = len(self.wait_sleeps) + int(ev[1])
                    if self._past_wait() or self.sleep_pace is None:
                        self.skipped.append(idx)
                        continue
                    deadline = time.time() + Limits.step + 0.01 * int(ev[1])
                    while len(self.wait_sleeps) < need and not (self._past_wait() or self.abort or self.run_done):
                        if time.time() > deadline:
                            ok = False
                            break
                        self.cv.wait(0.005)
                    if len(self.wait_sleeps) >= need:
                        self.idle_done += int(ev[1])
                    self.consumed.append(idx)
                elif kind == "in_eof":
                    self.in_eof = True
                    self.consumed.append(idx)
                    # give the stdin worker one look at it
                    c0 = self.stdin_closes
                    ok = self._wait(lambda: self.stdin_closes > c0 or self._worker_gone("in")
                                    or self.in_seen_eof)
                elif kind == "exit":
                    # input that is already available when the command finishes: the
                    # in/in_eof events directly after the exit event
                    j = idx + 1
                    while j < len(self.events) and self.events[j][0] in ("in", "in_eof"):
                        e2 = self.events[j]
                        if e2[0] == "in":
                            unit = e2[1] if isinstance(e2[1], str) else bytes(e2[1])
                            self.avail["in"].append((j, unit))
                        else:
                            self.in_eof = True
                        self.prereleased.add(j)
                        j += 1
                    self.after_exit = True
                    if self.exited is None:
                        self.exited = ev[1]
                    self.cv.notify_all()
                    ok = self._wait(self._past_wait)
                    self.consumed.append(idx)
                elif kind == "exit_kbd":
                    if self.exited is None:
                        self.exited = ev[1]
                    if not self.left_wait:
                        self.kbd_after_reap = True
                    self.after_exit = True
                    self.cv.notify_all()
                    ok = self._wait(self._past_wait)
                    self.consumed.append(idx)
                elif kind == "timer":
                    t = self.timer
                    if t is not None and self.pending_at_timer:
                        # the expiry and the input queued at that moment become visible together: the
                        # lock is held while the timer's function runs, so neither the stdin worker nor
                        # the wait loop's poll gets in between
                        if not self.after_exit:
                            j = idx + 1
                            while j < len(self.events) and self.events[j][0] in ("in", "in_eof"):
                                e2 = self.events[j]
                                if e2[0] == "in":
                                    unit = e2[1] if isinstance(e2[1], str) else bytes(e2[1])
                                    self.avail["in"].append((j, unit))
                                else:
                                    self.in_eof = True
                                self.prereleased.add(j)
                                j += 1
                        try:
                            t.fire()
                        except Exception as exc:     # noqa -- a real Timer thread dies of it; is_alive() turns False
                            self.kill_errors.append(type(exc).__name__)
                        if self.exited is not None:
                            self.after_exit = True
                        self.cv.notify_all()
                        ok = self._wait(self._past_wait)
                    elif t is not None:
                        self.cv.release()
                        try:
                            t.fire()
                        finally:
                            self.cv.acquire()
                        self.cv.notify_all()
                        ok = self._wait(self._past_wait)
                    self.consumed.append(idx)
                elif kind in ("exc", "werr", "exc_base"):
                    who = ev[1]
                    if self._worker_gone(who):
                        self.skipped.append(idx)
                        continue
                    if kind == "exc":
                        self.exc_pending[who] = OhNoz("injected")
                    elif kind == "exc_base":
                        self.exc_pending[who] = SystemExit(3)      # a BaseException that is no Exception
                    else:
                        from invoke.exceptions import WatcherError
                        self.exc_pending[who] = WatcherError("injected")
                    self.cv.notify_all()
                    ok = self._wait(lambda: self._worker_gone(who))
                    if ok:
                        p0 = self.polls
                        ok = self._wait(lambda: self.polls > p0 or self.left_wait)
                    self.consumed.append(idx)
                elif kind == "kbd":
                    self.kbd_pending.append(idx)
                    self.cv.notify_all()
                    ok = self._wait(lambda: idx in self.consumed or self.left_wait)
                if ok and not self._settle():
                    self.hang = self.hang or ("after event %d %r the main thread neither waits nor finishes" % (idx, ev))
                    break
                if not ok:
                    self.hang = self.hang or ("event %d %r not consumed" % (idx, ev))
                    break
            self.drained = True
            self.cv.notify_all()
            # Decide structurally whether the run can still end: waiting for wall-clock
            # time is only needed for the 1 s join timeouts.
            deadline = time.time() + Limits.run
            while not (self.call_done or self.run_done or self.abort):
                dead = any(th.ident is not None and th.is_dead for th in (self.threads or {}).values())
                if not self.left_wait and self.exited is None and not dead and self._settled_in_wait():
                    self.certain_hang = "the process never ends in this script and no worker died: run() keeps waiting"
                elif self.left_wait and self.joining in ("out", "err") and self.joins \
                        and self.joins[-1] == (self.joining, None) and self.joining in self.never_eof \
                        and self.waiting[self.joining] and not self.avail[self.joining]:
                    self.certain_hang = ("join(%s worker) without timeout, but that reader never gets EOF "
                                         "(pipe held open)" % self.joining)
                if self.certain_hang or time.time() > deadline:
                    self.hang = self.hang or self.certain_hang or "run() still going %.1fs after the script" % Limits.run
                    self.never_ended = True
                    self.abort = True
                    self.cv.notify_all()
                    break
                self.cv.wait(0.005)

    # ---- optional (C08): several events within ONE poll interval of the wait loop ----------
    BURST_KINDS = ("out", "err", "exc", "werr", "exc_base", "exit", "timer")

    def park(self):
        """called (through the time.sleep dispatcher) by the thread that executes run()/join() whenever it
        goes to sleep: while the driver holds it, it stays there -- i.e. this sleep of the wait loop lasts
        until the whole burst has happened"""
        with self.cv:
            if not self.hold_sleep or self._past_wait() or self.abort:
                return
            self.parked = True
            self.cv.notify_all()
            deadline = time.time() + Limits.run * 2
            while self.hold_sleep and not self.abort and time.time() < deadline:
                self.cv.wait(0.05)
            self.parked = False
            self.cv.notify_all()

    def _deliver_burst(self, first, last):
        """events first..last happen while the main thread sleeps between two iterations of its wait loop
        (cv held).  None: not applicable (the main thread has left the wait loop, or a kind that is tied to
        a poll) -- the caller delivers them one at a time; else True / False (= something was not consumed)."""
        if any(self.events[i][0] not in self.BURST_KINDS for i in range(first, last + 1)):
            return None
        self.hold_sleep = True
        self.cv.notify_all()
        if not self._wait(lambda: self.parked or self._past_wait()) or not self.parked or self.abort \
                or self.run_done:
            self.hold_sleep = False
            self.cv.notify_all()
            return None
        ok = True
        died = False
        try:
            for idx in range(first, last + 1):
                ev = self.events[idx]
                kind = ev[0]
                if kind in ("out", "err"):
                    if self._worker_gone(kind):
                        self.skipped.append(idx)
                        continue
                    self.avail[kind].append((idx, bytes(ev[1])))
                    self.cv.notify_all()
                    ok = self._wait(lambda: idx in self.consumed or self._worker_gone(kind))
                elif kind == "exit":
                    self.after_exit = True
                    if self.exited is None:
                        self.exited = ev[1]
                    self.consumed.append(idx)
                elif kind == "timer":
                    t = self.timer
                    if t is not None:
                        self.cv.release()
                        try:
                            t.fire()
                        finally:
                            self.cv.acquire()
                        if self.exited is not None:
                            self.after_exit = True
                    self.consumed.append(idx)
                else:
                    who = ev[1]
                    if self._worker_gone(who):
                        self.skipped.append(idx)
                        continue
                    if kind == "exc":
                        self.exc_pending[who] = OhNoz("injected")
                    elif kind == "exc_base":
                        self.exc_pending[who] = SystemExit(3)
                    else:
                        from invoke.exceptions import WatcherError
                        self.exc_pending[who] = WatcherError("injected")
                    self.cv.notify_all()
                    ok = self._wait(lambda: self._worker_gone(who))
                    died = True
                    self.consumed.append(idx)
                if not ok or self.abort or self.run_done:
                    break
        finally:
            self.hold_sleep = False
            self.cv.notify_all()
        if not ok:
            return False
        self.bursts.append([first, last])
        if self.exited is not None or died:
            # either makes the main thread leave its wait loop at the next iteration
            return self._wait(self._past_wait)
        return True

    def _settled_in_wait(self):
        p0 = self.polls
        self.cv.wait(0.01)
        return self.polls > p0 and not self.left_wait


class _FakeStdin:
    """stand-in for Popen.stdin of the scripted command: closing it closes the scripted child-stdin sink
    (later writes through _write_proc_stdin are rejected like writes on a closed pipe object)"""

    def __init__(self, env):
        self._env = env
        self.closed = False

    def close(self):
        with self._env.cv:
            if not self.closed:
                self.closed = True
                self._env.stdin_closes += 1
                self._env.stdin_log.append("c:kill")
            self._env.cv.notify_all()

    def flush(self):
        pass

    def fileno(self):
        raise ValueError("I/O operation on closed file" if self.closed else "scripted pipe: no descriptor")


class _FakeProcess:
    """stand-in for the Popen object of the scripted command, as far as kill() may use it"""

    def __init__(self, env, child):
        self._child = child
        self.pid = child.pid
        self.stdin = _FakeStdin(env)
        self.stdout = self.stderr = None

    def poll(self):
        return self._child.poll()

    def send_signal(self, sig):
        self._child.send_signal(sig)

    def kill(self):
        self._child.kill()

    def terminate(self):
        self._child.terminate()


class _KillProxy:
    """`self` for the real Local.kill (Env(real_kill=True)): pid / process of the stand-in child; no
    `process` attribute under a pty (as in Local); everything else is the scripted runner's"""

    def __init__(self, runner, env, child):
        self.__dict__["_verif_runner"] = runner
        self.pid = child.pid
        self.using_pty = runner.using_pty
        if not runner.using_pty:
            self.process = _FakeProcess(env, child)

    def __getattr__(self, name):
        if name == "process":
            raise AttributeError(name)
        return getattr(self.__dict__["_verif_runner"], name)


def make_runner_class():
    import invoke.runners as R

    class ScriptedRunner(R.Runner):
        input_sleep = 0.0005

        def __init__(self, context, env, start_error=None):
            super().__init__(context)
            self._verif_env = env
            self._start_error = start_error
            # observe program_finished.set() without changing it
            ev = self.program_finished
            orig_set = ev.set

            def set_():
                orig_set()
                with env.cv:
                    env.left_wait = True
                    env.cv.notify_all()
            ev.set = set_

        # -- OS-facing primitives -------------------------------------------
        def should_use_pty(self, pty=False, fallback=True):
            # optional (C02, case key "stdin"): decide as Local does -- the REAL Local.should_use_pty, which
            # looks at sys.stdin (run_scripted puts a stand-in there); the one-off warning counts as given
            if not getattr(self, "_verif_local_pty_rule", False):
                return super().should_use_pty(pty, fallback)
            self.warned_about_pty_fallback = True
            return R.Local.should_use_pty(self, pty, fallback)

        def start(self, command, shell, env):
            e = self._verif_env
            if getattr(self, "_verif_local_pty_rule", False):
                # the child is reaped by us only when a pty is really in effect
                e.reap_echild = bool(e.reap_echild and self.using_pty)
            if self._start_error:
                import builtins
                raise getattr(builtins, self._start_error)(2, "scripted start failure")
            e.started = True
            e.driver = threading.Thread(target=e.drive, daemon=True)
            e.driver.start()

        def create_io_threads(self):
            r = super().create_io_threads()
            e = self._verif_env
            names = {"handle_stdout": "out", "handle_stderr": "err", "handle_stdin": "in"}
            for target, th in r[0].items():
                who = names[target.__name__]

                def join(timeout=None, _th=th, _who=who, _orig=th.join):
                    with e.cv:
                        e.joining = _who
                        e.joins.append((_who, timeout))
                        e.cv.notify_all()
                    try:
                        return _orig(timeout)
                    finally:
                        with e.cv:
                            e.joining = None
                            e.cv.notify_all()
                th.join = join
            with e.cv:
                e.threads = r[0]
                e.cv.notify_all()
            return r

        def read_proc_stdout(self, num_bytes):
            return self._verif_env.read_proc("out")

        def read_proc_stderr(self, num_bytes):
            return self._verif_env.read_proc("err")

        def _write_proc_stdin(self, data):
            e = self._verif_env
            tgt = getattr(threading.current_thread(), "kwargs", {}).get("target")
            who = {"handle_stdin": "in", "handle_stdout": "out", "handle_stderr": "err"}.get(
                getattr(tgt, "__name__", None), "main")
            with e.cv:
                if e.stdin_closes and not self.using_pty:
                    # a real pipe: Popen's stdin object is closed, .fileno() raises
                    e.stdin_log.append("rejected:" + who)
                    raise ValueError("I/O operation on closed file")
                e.stdin_writes.append((who, bytes(data)))
                e.stdin_log.append("w:" + who)

        def close_proc_stdin(self):
            e = self._verif_env
            with e.cv:
                e.stdin_closes += 1
                e.stdin_log.append("c")
                e.cv.notify_all()

        @property
        def process_is_finished(self):
            return self._verif_env.poll()

        def returncode(self):
            return self._verif_env.exited

        def kill(self):
            e = self._verif_env
            if not e.real_kill:
                e.kill()
                return
            # the REAL Local.kill, run on a stand-in for the command: an own, live child process (so the
            # signal cannot reach anybody else) and a stand-in for Popen's stdin pipe object that shares
            # the scripted child-stdin sink -- whatever kill() does to that pipe, the workers see it
            import subprocess
            child = subprocess.Popen(["sleep", "60"], stdin=subprocess.DEVNULL, stdout=subprocess.DEVNULL,
                                     stderr=subprocess.DEVNULL)
            err = None
            try:
                try:
                    R.Local.kill(_KillProxy(self, e, child))
                except Exception as exc:   # noqa
                    err = exc
                try:
                    child.wait(2.0)
                    effective = True
                except subprocess.TimeoutExpired:
                    effective = False
            finally:
                if child.poll() is None:
                    child.kill()
                    child.wait()
            e.kill(effective)
            if err is not None:
                raise err

        def stop(self):
            self._verif_env.stop_calls += 1
            super().stop()

    return ScriptedRunner


_runner_cls = None


def runner_class():
    global _runner_cls
    if _runner_cls is None:
        install()
        _runner_cls = make_runner_class()
    return _runner_cls


class RecordingWatcher:
    """StreamWatcher that records what it is shown, per worker thread"""

    def __init__(self):
        self.seen = {"handle_stdout": [], "handle_stderr": []}
        self.lock = threading.Lock()

    def submit(self, stream):
        t = threading.current_thread()
        name = getattr(getattr(t, "kwargs", {}).get("target"), "__name__", "?")
        with self.lock:
            self.seen.setdefault(name, []).append(stream)
        return []


class AlwaysResponder:
    """StreamWatcher answering every submission with the same text"""

    def __init__(self, text):
        self.text = text

    def submit(self, stream):
        return [self.text]


HIDE = {"none": None, "false": False, "true": True, "out": "out", "stdout": "stdout",
        "err": "err", "stderr": "stderr", "both": "both"}


class _StdinFile:
    """stand-in for sys.stdin backed by a descriptor (never read: the runs that use it pass in_stream)"""

    def fileno(self):
        return 0

    def isatty(self):
        return False

    def read(self, n=-1):
        return ""


class _StdinNoFileno(_StdinFile):
    """a legal sys.stdin replacement that is not backed by a descriptor (StringIO-like)"""

    def fileno(self):
        import io
        raise io.UnsupportedOperation("fileno")


class _StdinNoAttr:
    """a sys.stdin replacement without a fileno method at all"""

    def isatty(self):
        return False

    def read(self, n=-1):
        return ""


def stdin_stand_in(kind):
    return {"file": _StdinFile, "nofileno": _StdinNoFileno, "noattr": _StdinNoAttr}[kind]()


def run_scripted(case, in_stream=None, input_sleep=None):
    """Run one scripted case through the real Runner.  Returns the full
    observation dict; plug-ins pick what their property talks about.

    Optional (C13): `in_stream` -- a real stream object (open text file, pipe, StringIO ...) handed to
    run() as in_stream instead of the scripted ScriptedIn (the script then holds no in/in_eof events;
    readiness of such an object is answered by the original ready_for_reading); `input_sleep` -- the
    runner instance's input_sleep (configuration: the pause between two reads of the input stream)."""
    from invoke import Context, Config
    from invoke.exceptions import Failure, ThreadException
    cls = runner_class()
    if Limits.exhausted():
        return {"hang": True, "hang_what": "not run: %d earlier runs in this process hung" % Limits.hangs,
                "not_run": True, "elapsed": 0.0, "kills": 0, "kills_after_exit": 0, "stop_calls": 0,
                "program_finished": False, "workers": [], "alive_after": [], "timer": None,
                "stdin_writes": {"in": [], "out": [], "err": [], "main": []}, "stdin_closes": 0, "stdin_log": [], "out_stream": "", "err_stream": "", "out_other": "", "err_other": "",
                "out_submits": [], "err_submits": [], "consumed": [], "joins": [], "exit_observed": False,
                "started": False, "outcome": "HANG", "stdout": None, "stderr": None, "exited": None}
    env = Env(case.get("events", []), never_eof=case.get("never_eof", ()),
              reap_echild=bool(case.get("pty")) and bool(case.get("reap_echild", True)),
              pending_at_timer=bool(case.get("pending_at_timer")), real_kill=bool(case.get("real_kill")),
              glue=case.get("glue") or ())
    if env.glue:
        install_park()
    overrides = {}
    if case.get("config_timeout") is not None:
        overrides["timeouts"] = {"command": case["config_timeout"]}
    enc_from = case.get("enc_from", "kwarg")
    if enc_from == "config":
        overrides["run"] = {"encoding": case.get("enc", "utf-8")}
    elif case.get("enc_cfg"):
        overrides["run"] = {"encoding": case["enc_cfg"]}     # a config value the keyword must beat
    ctx = Context(Config(overrides=overrides)) if overrides else Context()
    runner = cls(ctx, env, start_error=case.get("start_error"))
    # optional (C02): the stream objects advertise an encoding (out_menc / err_menc: None = no such
    # attribute) and may be real TextIOWrappers with their own error handler (out_wrap / err_wrap)
    o_enc, e_enc = case.get("out_menc"), case.get("err_menc")
    o_wrap, e_wrap = bool(case.get("out_wrap")), bool(case.get("err_wrap"))
    out_rec = mirror_stream(o_enc, o_wrap, case.get("slow_out", 0.0))    # explicit out_stream / err_stream objects
    err_rec = mirror_stream(e_enc, e_wrap)
    sys_out, sys_err = mirror_stream(o_enc, o_wrap), mirror_stream(e_enc, e_wrap)   # what sys.stdout / sys.stderr receive meanwhile
    watcher = RecordingWatcher()
    kwargs = dict(
        hide=HIDE[case.get("hide", "none")],
        pty=bool(case.get("pty")),
        warn=bool(case.get("warn")),
        watchers=[watcher] + ([AlwaysResponder(case["respond"])] if case.get("respond") else []),
    )
    if enc_from == "kwarg":
        kwargs["encoding"] = case.get("enc", "utf-8")
    if case.get("async"):
        kwargs["asynchronous"] = True
    if case.get("out_given"):
        kwargs["out_stream"] = out_rec
    if case.get("err_given"):
        kwargs["err_stream"] = err_rec
    ins = case.get("in")
    if in_stream is not None:
        kwargs["in_stream"] = in_stream
    elif ins:
        kwargs["in_stream"] = ScriptedIn(env, ins.get("mode", "text"), bool(ins.get("tty")))
    else:
        kwargs["in_stream"] = False
    if "echo_stdin" in case:
        if case.get("echo_from") == "config":
            overrides.setdefault("run", {})["echo_stdin"] = case["echo_stdin"]
            ctx = Context(Config(overrides=overrides))
            runner = cls(ctx, env, start_error=case.get("start_error"))
        else:
            kwargs["echo_stdin"] = case["echo_stdin"]
    if "timeout" in case:
        kwargs["timeout"] = case["timeout"]
    if input_sleep is not None:
        runner.input_sleep = input_sleep
    # optional (C14): record the sleeps of the thread that calls run() (see the module docstring)
    if case.get("record_sleeps"):
        install_sleep_recorder()
        env.sleep_pace = float(case.get("pace", 0.0005))
        if case.get("input_sleep") is not None:
            runner.input_sleep = case["input_sleep"]
    # optional (C02): "stdin" = what sys.stdin is during the run ("file": has a fileno; "nofileno": fileno()
    # raises io.UnsupportedOperation; "noattr": no such method) -- the scripted runner then decides
    # pty-or-pipes the way Local does; "fallback" = the run(fallback=...) keyword (absent: not passed)
    stdin_kind = case.get("stdin")
    if stdin_kind is not None:
        runner._verif_local_pty_rule = True
        if case.get("fallback") is not None:
            kwargs["fallback"] = bool(case["fallback"])

    box = {}

    def call():
        if env.sleep_pace is not None:
            _sleep_ctx[threading.get_ident()] = env
        if env.glue:
            _parkers[threading.get_ident()] = env
        try:
            r = runner.run("scripted", **kwargs)
            if case.get("async") and r is not None:
                box["promise"] = True
                r = r.join()
            box["result"] = r
        except BaseException as e:  # noqa
            box["exc"] = e
        finally:
            _sleep_ctx.pop(threading.get_ident(), None)
            _parkers.pop(threading.get_ident(), None)
            with env.cv:
                env.call_done = True
                env.cv.notify_all()

    saved = sys.stdout, sys.stderr
    saved_stdin = sys.stdin
    sys.stdout, sys.stderr = sys_out, sys_err
    t = threading.Thread(target=call, daemon=True)
    t0 = time.time()
    try:
        if stdin_kind is not None:
            sys.stdin = stdin_stand_in(stdin_kind)
        t.start()
        t.join(Limits.run)
        hung = t.is_alive()
        with env.cv:
            env.run_done = True
            if hung:
                env.hang = env.hang or "run() did not return within %.1fs" % Limits.run
                env.abort = True
            env.cv.notify_all()
        if hung:
            t.join(1.5)
    finally:
        sys.stdout, sys.stderr = saved
        sys.stdin = saved_stdin
    elapsed = time.time() - t0
    # resources, as left behind by run()/join()
    workers = dict((tg.__name__, th) for tg, th in (getattr(runner, "threads", None) or {}).items())
    alive_after = sorted(n for n, th in workers.items() if th.is_alive())
    timer = env.timer
    if (hung or env.hang) and not env.certain_hang:
        Limits.note_hang()
    obs = {
        "hang": bool(hung or env.hang),
        "hang_what": env.hang,
        "certain_hang": env.certain_hang,
        "elapsed": elapsed,
        "kills": env.kills,
        "kills_after_exit": env.kills_after_exit,
        "kill_errors": list(env.kill_errors), "kills_ineffective": env.kills_ineffective,
        "stop_calls": env.stop_calls,
        "program_finished": runner.program_finished.is_set(),
        "workers": sorted(workers),
        "alive_after": alive_after,
        "timer": None if timer is None else
        {"started": timer.started, "cancelled": timer.cancelled, "fired": timer.fired,
         "armed_after": timer.is_alive(), "interval": timer.interval},
        "stdin_writes": {w: [list(b) for ww, b in env.stdin_writes if ww == w]
                         for w in ("in", "out", "err", "main")},
        "stdin_closes": env.stdin_closes,
        "stdin_log": list(env.stdin_log),
        # the stream the run was told to use: the explicit object, else sys.stdout/sys.stderr
        "out_stream": out_rec.text() if case.get("out_given") else sys_out.text(),
        "err_stream": err_rec.text() if case.get("err_given") else sys_err.text(),
        # and the other one, which must stay silent
        "out_other": sys_out.text() if case.get("out_given") else out_rec.text(),
        "err_other": sys_err.text() if case.get("err_given") else err_rec.text(),
        "out_submits": list(watcher.seen.get("handle_stdout", [])),
        "err_submits": list(watcher.seen.get("handle_stderr", [])),
        "consumed": list(env.consumed),
        "joins": [[w, tm] for w, tm in env.joins],
        "exit_observed": env.exit_observed,
        "started": env.started,
        "bursts": [list(b) for b in env.bursts],
    }
    if env.sleep_pace is not None:
        obs["wait_sleeps"] = run_lengths(list(env.wait_sleeps))
        obs["idle_done"] = env.idle_done
        obs["input_sleep"] = runner.input_sleep
    # let leftover workers go
    with env.cv:
        env.abort = True
        env.cv.notify_all()
    for th in workers.values():
        th.join(1)
    res = None
    if "exc" in box:
        e = box["exc"]
        obs["outcome"] = type(e).__name__
        if isinstance(e, Failure):
            res = e.result
        if isinstance(e, ThreadException):
            obs["thread_excs"] = sorted(type(w.value).__name__ for w in e.exceptions)
    else:
        res = box.get("result")
        obs["outcome"] = "Result" if res is not None else "None"
    if res is not None:
        obs["stdout"], obs["stderr"], obs["exited"] = res.stdout, res.stderr, res.exited
    else:
        obs["stdout"] = obs["stderr"] = obs["exited"] = None
    return obs


def cps(s):
    """text -> list of code points"""
    return [ord(c) for c in s]


# ---------------------------------------------------------------------------
# real child processes through invoke.runners.Local, with bounded waits
# ---------------------------------------------------------------------------
def fd_count():
    try:
        return len(os.listdir("/proc/self/fd"))
    except OSError:
        return -1


def proc_state(pid):
    """'Z' zombie, 'R'/'S'/... alive, None = no such process"""
    try:
        with open("/proc/%d/stat" % pid) as f:
            s = f.read()
        return s[s.rindex(")") + 2]
    except (OSError, ValueError):
        return None


def zombie_children():
    me = os.getpid()
    out = []
    for d in os.listdir("/proc"):
        if d.isdigit():
            try:
                with open("/proc/%s/stat" % d) as f:
                    s = f.read()
                rest = s[s.rindex(")") + 2:].split()
                if rest[0] == "Z" and int(rest[1]) == me:
                    out.append(int(d))
            except (OSError, ValueError, IndexError):
                pass
    return out


def run_real(command, bound=30.0, runner_cls=None, context=None, join_delay=0.0, **kwargs):
    """runner.run(command, **kwargs) on a real Local runner in a helper thread;
    gives up (and kills the child) after `bound` seconds.  command: str or argv list."""
    import shlex
    from invoke import Context
    from invoke.runners import Local
    from invoke.exceptions import Failure, ThreadException
    if not isinstance(command, str):
        command = " ".join(shlex.quote(x) for x in command)
    runner = (runner_cls or Local)(context or Context())
    box = {}

    def call():
        try:
            r = runner.run(command, **kwargs)
            if kwargs.get("asynchronous") and r is not None:
                if join_delay:
                    time.sleep(join_delay)
                r = r.join()
            box["result"] = r
        except BaseException as e:  # noqa
            box["exc"] = e

    t = threading.Thread(target=call, daemon=True)
    t0 = time.time()
    t.start()
    t.join(bound)
    elapsed = time.time() - t0
    hung = t.is_alive()
    pid = None
    try:
        pid = runner.pid if getattr(runner, "using_pty", False) else runner.process.pid
    except AttributeError:
        pass
    if hung and pid:
        try:
            os.kill(pid, 9)
        except OSError:
            pass
        t.join(5)
    obs = {"hang": hung, "hang_what": "run() still blocked after %.0fs" % bound if hung else None,
           "elapsed": elapsed, "pid": pid, "runner": runner}
    res = None
    if "exc" in box:
        e = box["exc"]
        obs["outcome"] = type(e).__name__
        obs["exc"] = e
        if isinstance(e, Failure):
            res = e.result
        if isinstance(e, ThreadException):
            obs["thread_excs"] = sorted(type(w.value).__name__ for w in e.exceptions)
    elif hung:
        obs["outcome"] = "HANG"
    else:
        res = box.get("result")
        obs["outcome"] = "Result" if res is not None else "None"
    obs["stdout"] = res.stdout if res is not None else None
    obs["stderr"] = res.stderr if res is not None else None
    obs["exited"] = res.exited if res is not None else None
    workers = dict((tg.__name__, th) for tg, th in (getattr(runner, "threads", None) or {}).items())
    obs["alive_after"] = sorted(n for n, th in workers.items() if th.is_alive())
    tm = getattr(runner, "_timer", None)
    if tm is not None:
        tm.join(2)           # a cancelled Timer thread needs a moment to leave
    obs["timer_alive"] = bool(tm is not None and tm.is_alive())
    obs["child_state"] = proc_state(pid) if pid else None
    return obs
