"""Event-script cases shared by C08 and C14 (model: coq/Model/RunnerSM.v,
correspondence record: coq/Corr/RunnerCorr.v, driver: harness/runner_common.py).

case = {"events": [...], "pty", "in": None|{"mode":"text"}, "warn", "async",
        "start_error": None|"FileNotFoundError", "never_eof": [...],
        "timeout": n (optional run() keyword), "config_timeout": n (optional)}
Reads are single bytes so len(Result.stdout) counts the captured reads.
"""
import itertools

from . import coqterm as ct
from . import runner_common as rc

WHO = {"out": "WOut", "in": "WIn", "err": "WErr"}
OUTCOME = {"Result": "OResult", "UnexpectedExit": "OUnexpectedExit", "Failure": "OFailure",
           "CommandTimedOut": "OTimedOut", "ThreadException": "OThreadException",
           "ChildProcessError": "OChildProcessError", "FileNotFoundError": "OStartError"}
END = ("exit", "exit_kbd")


def ev_coq(ev):
    k = ev[0]
    if k in ("out", "err"):
        return ("EChunk %s" if ev[1] else "EEof %s") % WHO[k]
    if k == "exit":
        return "EExit %s" % ct.z(ev[1])
    if k == "exit_kbd":
        return "EExitKbd %s" % ct.z(ev[1])
    if k == "timer":
        return "ETimer"
    if k in ("exc", "exc_base"):
        return "EExc %s XOther" % WHO[ev[1]]
    if k == "in":
        return "EChunk WIn"
    if k == "in_eof":
        return "EEof WIn"
    if k == "werr":
        return "EExc %s XWatcher" % WHO[ev[1]]
    if k == "kbd":
        return "EKbd"
    raise ValueError(ev)


def opt_n(x):
    return "None" if x is None else "(Some %s)" % ct.n(x)


def tenths(x):
    """seconds -> tenths of a second (Coq nat); None stays None"""
    return None if x is None else int(round(float(x) * 10))


def expected_texts(case):
    """what each stream's reads spell, before its EOF"""
    res = {}
    for who in ("out", "err"):
        bs = []
        for ev in case["events"]:
            if ev[0] == who:
                if not ev[1]:
                    break
                bs.extend(ev[1])
        res[who] = bytes(bs).decode("utf-8")
    return res


def effective_timeout(case):
    return case["timeout"] if "timeout" in case else case.get("config_timeout")


def kwarg_coq(case):
    """run(timeout=...) as Coq [option (option nat)]: not given / given as None / given as a number"""
    if "timeout" not in case:
        return "None"
    return "(Some %s)" % opt_n(tenths(case["timeout"]))


def run_impl(case):
    o = rc.run_scripted(dict(case, hide="both", enc="utf-8"))
    hang = bool(o.get("certain_hang")) or o["outcome"] in ("HANG", "HarnessAbort") or bool(o["hang"])
    tm = o["timer"]
    names = {"handle_stdout": "out", "handle_stdin": "in", "handle_stderr": "err"}
    res = o["stdout"] is not None
    want = expected_texts(case)
    text_ok = True
    if res:
        # captured text = the first reads of the stream, in order (how many: compared with the model)
        text_ok = want["out"].startswith(o["stdout"]) and \
            (o["stderr"] == "" if case["pty"] else want["err"].startswith(o["stderr"]))
    return {
        "text_ok": text_ok, "stdout": o["stdout"], "stderr": o["stderr"],
        "hang": hang, "hang_what": o.get("hang_what"),
        "outcome": None if hang else o["outcome"],
        "kills": o["kills"], "kills_after_exit": o["kills_after_exit"],
        "intr": sum(1 for w in o["stdin_writes"]["main"] if w == [3]),
        "stop": o["stop_calls"], "flag": o["program_finished"],
        "alive": [w for w in ("out", "in", "err") if w in [names[a] for a in o["alive_after"]]],
        "timer_armed": bool(tm and tm["armed_after"]), "timer_fired": bool(tm and tm["fired"]),
        "interval": tenths(tm["interval"]) if tm else None,
        "reaped": o["exit_observed"],
        "nout": len(o["stdout"]) if res else 0, "nerr": len(o["stderr"]) if res else 0,
        "joins": o.get("joins"), "thread_excs": o.get("thread_excs"), "elapsed": round(o["elapsed"], 3),
        # only with case["record_sleeps"] (C14): the wait loop's pauses, run-length [[seconds, count], ...]
        "wait_sleeps": o.get("wait_sleeps"), "idle_done": o.get("idle_done", 0), "input_sleep": o.get("input_sleep"),
        # only with case["glue"] (C08): the groups of events delivered within one poll interval of the wait loop
        "bursts": o.get("bursts") or [],
    }


def to_coq(case, obs):
    oc = "None" if obs["outcome"] is None else "(Some %s)" % OUTCOME.get(obs["outcome"], "OOther")
    joins = ct.lst(["(%s, %s)" % (WHO[w], ct.b(tm is not None)) for w, tm in (obs.get("joins") or [])])
    o = "(mkSmObs %s %s %s %s %s %s %s %s %s %s %s %s %s)" % (
        oc, ct.n(obs["kills"]), ct.n(obs["kills_after_exit"]), ct.n(obs["intr"]), ct.n(obs["stop"]),
        ct.b(obs["flag"]), ct.lst([WHO[w] for w in obs["alive"]]), ct.b(obs["timer_armed"]),
        ct.b(obs["timer_fired"]), ct.b(obs["reaped"]), ct.n(obs["nout"]), ct.n(obs["nerr"]), joins)
    ne = case.get("never_eof", [])
    return "(mk %s %s %s %s %s %s %s %s %s %s %s %s %s)" % (
        ct.b(case["pty"]), ct.b(bool(case.get("in"))), ct.b(case["warn"]), ct.b(case["async"]),
        ct.b(bool(case.get("start_error"))), ct.b("out" in ne), ct.b("err" in ne),
        kwarg_coq(case), opt_n(tenths(case.get("config_timeout"))),
        ct.lst([ev_coq(e) for e in case["events"] if e[0] != "idle"]), o, opt_n(obs["interval"]),
        ct.b(obs.get("text_ok", True)))       # ["idle", n] (C14): nothing happens, not an event of the model


# ---------------------------------------------------------------------------
# script facts mirrored from the Coq specs (for finding signatures / classification)
# ---------------------------------------------------------------------------
def workers(case):
    return ["out"] + (["in"] if case.get("in") else []) + ([] if case["pty"] else ["err"])


def is_end(case, ev):
    return ev[0] in END or (ev[0] == "timer" and effective_timeout(case) is not None)


def process_ends(case):
    return any(is_end(case, e) for e in case["events"])


def death_while_running(case):
    """(worker, kind) of the first death of an existing worker before the process ends"""
    done = set()
    for e in case["events"]:
        if is_end(case, e):
            return None
        if e[0] in ("out", "err") and not e[1]:
            done.add(e[0])
        if e[0] in ("exc", "werr", "exc_base") and e[1] in workers(case) and e[1] not in done:
            return (e[1], e[0])
    return None


def first_of(case):
    for e in case["events"]:
        if e[0] == "timer":
            return "expired"
        if e[0] in END:
            return "finished"
    return "none"


def has_exc(case):
    return any(e[0] in ("exc", "werr", "exc_base") for e in case["events"])


def has_kbd(case):
    return any(e[0] in ("kbd", "exit_kbd") for e in case["events"])


# ---------------------------------------------------------------------------
# generation
# ---------------------------------------------------------------------------
def gen_case(rng, focus=None):
    pty = rng.random() < 0.25
    ins = {"mode": "text"} if rng.random() < 0.4 else None
    case = {"pty": pty, "in": ins, "warn": rng.random() < 0.5, "async": rng.random() < 0.15,
            "start_error": None, "never_eof": []}
    r = rng.random()
    if focus == "timeout":
        if r < 0.55:
            case["timeout"] = rng.choice([1, 5, 0.9, 2.9, 0, None])     # 0 is a timeout; None switches config off
        if rng.random() < 0.4:
            case["config_timeout"] = rng.choice([2, 7, 0.5])
    else:
        if r < 0.3:
            case["timeout"] = rng.choice([1, 5, 0, None])
        if rng.random() < 0.2:
            case["config_timeout"] = rng.choice([2, 7])
    if not pty and rng.random() < 0.04:
        case["start_error"] = "FileNotFoundError"
    evs = []
    for i in range(rng.choice([0, 0, 1, 1, 2, 3])):
        evs.append(["out", [65 + i]])            # A B C: every read carries its own byte
    for i in range(rng.choice([0, 0, 1, 2])):
        evs.append(["err", [97 + i]])            # a b
    oi = iter(sorted(e[1][0] for e in evs if e[0] == "out"))
    ei = iter(sorted(e[1][0] for e in evs if e[0] == "err"))
    rng.shuffle(evs)
    evs = [[e[0], [next(oi) if e[0] == "out" else next(ei)]] for e in evs]   # in stream order after the shuffle
    if rng.random() < 0.7:
        evs.insert(rng.randrange(len(evs) + 1), ["out", []])
    if rng.random() < 0.7:
        evs.insert(rng.randrange(len(evs) + 1), ["err", []])
    r = rng.random()
    end = None
    if r < 0.78:
        end = ["exit", rng.choice([0, 0, 0, 1, 2, -15])]
    elif r < 0.86:
        end = ["exit_kbd", rng.choice([0, 1])]
    if end:
        evs.insert(rng.randrange(len(evs) + 1), end)
    te = effective_timeout(case)
    if rng.random() < (0.55 if te is not None else 0.08):
        evs.insert(rng.randrange(len(evs) + 1), ["timer"])
    disruptive = []
    if rng.random() < (0.3 if focus != "timeout" else 0.1):
        for _ in range(rng.choice([1, 1, 2])):
            w = rng.choice(["out", "out", "err", "in"])
            d = [rng.choice(["exc", "exc", "werr", "exc_base"]), w]
            disruptive.append(d)
            evs.insert(rng.randrange(len(evs) + 1), d)
    if rng.random() < 0.15:
        evs.insert(rng.randrange(len(evs) + 1), ["kbd"])
    # a death of the stdin worker is only scripted while nothing else has made the main
    # thread leave its wait loop (afterwards that worker leaves by itself: a race)
    ins_d = [d for d in disruptive if d[1] == "in"]
    if ins_d:
        for d in ins_d:
            evs.remove(d)
        first = next((i for i, e in enumerate(evs) if e[0] in ("exit", "exit_kbd", "timer", "exc", "werr",
                                                               "exc_base")),
                     len(evs))
        evs.insert(rng.randrange(first + 1), ins_d[0])
    if ins and rng.random() < 0.6:
        first = next((i for i, e in enumerate(evs) if e[0] in ("exit", "exit_kbd", "timer", "exc", "werr",
                                                               "exc_base")), len(evs))
        units = [["in", rng.choice(["a", "b", "\n"])] for _ in range(rng.randint(1, 3))]
        if rng.random() < 0.5:
            units.append(["in_eof"])
        for u in units:
            pos = rng.randrange(first + 1)
            # keep the units in order: insert each one at or after the previous
            evs.insert(first, u)
            first += 1
    if not pty and any(e[0] == "in_eof" for e in evs):
        # after the input's EOF the child's stdin is closed: forwarding an interrupt then writes to the closed
        # pipe and ValueError escapes run() -- finding F-C08h, witnessed on the real runner, not an event order
        # of the model: no interrupt after the EOF in generated scripts
        k = next(i for i, e in enumerate(evs) if e[0] == "in_eof")
        evs = evs[:k + 1] + [["exit", e[1]] if e[0] == "exit_kbd" else e for e in evs[k + 1:] if e[0] != "kbd"]
    case["events"] = evs
    ends = process_ends(case)
    if not ends:
        # the command runs for ever: it keeps its own pipes open
        case["never_eof"] = [w for w in ("out", "err") if w in workers(case)]
    else:
        case["never_eof"] = [w for w in ("out", "err") if w in workers(case) and rng.random() < 0.1]
    return case


def may_expire(case):
    """a worker death with a reader held open: the real run then sits out 1 s join timeouts"""
    return bool(case.get("never_eof")) and has_exc(case)


def quick_cases(rng, n, focus=None, slice_k=120, max_expiring=5):
    """quick tier: a slice of the small scope + n generated cases, with at most `max_expiring`
    cases that cost real seconds (1 s per expiring join); the thorough tier runs them all"""
    expiring = 0
    out = 0
    pool = small_sample(rng, slice_k * 3)
    taken = 0
    for c in pool:
        if taken >= slice_k:
            break
        if may_expire(c):
            if expiring >= max_expiring:
                continue
            expiring += 1
        taken += 1
        yield c
    while out < n:
        c = gen_case(rng, focus)
        if may_expire(c):
            if expiring >= max_expiring + 3:
                continue
            expiring += 1
        out += 1
        yield c


def small_sample(rng, k):
    """a capped random slice of the small-scope enumeration (quick tier)"""
    cs = list(small_cases("quick"))
    rng.shuffle(cs)
    return cs[:k]


def small_cases(tier):
    """all orders of {timer, exit, out-EOF, err-EOF} (+ one read) with a timeout in effect;
    all positions of one worker death among {exit, EOFs}"""
    base = [["timer"], ["exit", 0], ["out", []], ["err", []]]
    for perm in itertools.permutations(base):
        for pty in (False, True):
            for warn in (False, True):
                for code in (0, 3):
                    evs = [list(e) if e[0] != "exit" else ["exit", code] for e in perm]
                    yield {"events": [["out", [65]]] + evs, "pty": pty, "in": None, "warn": warn,
                           "async": False, "start_error": None, "never_eof": [], "timeout": 5}
    for who in ("out", "in", "err"):
        for kind in ("exc", "werr"):
            base = [[kind, who], ["exit", 1], ["out", []], ["err", []]]
            for perm in itertools.permutations(base):
                evs = [list(e) for e in perm]
                # see gen_case: stdin-worker death only as the first disruptive event
                if who == "in" and [e[0] for e in evs].index(kind) > [e[0] for e in evs].index("exit"):
                    continue
                for pty in (False, True):
                    for hold in ([], ["out"], ["err"]):
                        if pty and "err" in hold:
                            continue
                        yield {"events": evs, "pty": pty, "in": {"mode": "text"}, "warn": False,
                               "async": False, "start_error": None, "never_eof": hold}
    # a worker dies and the command never ends / ends while a descendant keeps a pipe
    for who in ("out", "in", "err"):
        for kind in ("exc", "werr"):
            for pty in (False, True):
                ws = ["out"] + ([] if pty else ["err"])
                yield {"events": [[kind, who]], "pty": pty, "in": {"mode": "text"}, "warn": False,
                       "async": False, "start_error": None, "never_eof": ws}
                yield {"events": [["out", [65]], [kind, who], ["out", [66]]], "pty": pty, "in": None,
                       "warn": True, "async": True, "start_error": None, "never_eof": ws}
                for hold in ws:
                    yield {"events": [[kind, who], ["exit", 0]], "pty": pty, "in": {"mode": "text"},
                           "warn": False, "async": False, "start_error": None, "never_eof": [hold]}
    for pty in (False, True):
        for evs in ([["exit_kbd", 0]], [["kbd"], ["exit", 0]], [["exit", 0], ["kbd"]],
                    [["exit_kbd", 2], ["out", []]], [["out", []], ["exit_kbd", 0]]):
            yield {"events": evs, "pty": pty, "in": None, "warn": False, "async": False,
                   "start_error": None, "never_eof": []}


def shrink_candidates(case):
    evs = case["events"]
    for i in range(len(evs)):
        c = dict(case, events=evs[:i] + evs[i + 1:])
        if not process_ends(c):
            c["never_eof"] = [w for w in ("out", "err") if w in workers(c)]
        yield c
    for k, v in (("pty", False), ("async", False), ("warn", True), ("in", None)):
        if case.get(k) != v:
            yield dict(case, **{k: v})
    if case.get("never_eof") and process_ends(case):
        yield dict(case, never_eof=[])
    for k in ("config_timeout", "timeout"):
        if k in case:
            c = dict(case)
            del c[k]
            if effective_timeout(c) is not None or not any(e[0] == "timer" for e in evs):
                yield c


def classify(case, obs):
    d = death_while_running(case)
    return "%s%s%s %s%s" % (
        "pty " if case["pty"] else "", "async " if case["async"] else "",
        "timeout" if effective_timeout(case) is not None else "no-timeout",
        "death:%s " % d[0] if d else "", obs["outcome"] or "HANG")
