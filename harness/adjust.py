"""Attribution inside Coq.

A plug-in may list, besides ``corr`` and ``spec``, *adjusted* judgements in its
``preds`` -- the specification with one known finding's expectation
substituted (e.g. "unnamed calls are judged against the root configuration").
``core`` evaluates every predicate of ``preds`` on every case but hands only the
case and its observation to ``finding_of``.  This module lets ``finding_of`` see
the Coq verdicts of the case it is asked about: ``eval_shards`` is wrapped so
that the per-term results are remembered, and a plug-in records which term it
printed for which case.  Nothing of the verdict logic changes: ``core`` still
decides, and still consults ``finding_of`` only when the faithful model agrees.
"""
import hashlib
import json

from . import core

_results = {}          # sha1(term) -> {pred: bool}
_orig = core.eval_shards


def _key(term):
    return hashlib.sha1(term.encode()).hexdigest()


def _eval_shards(prop, terms, tag="s"):
    res = _orig(prop, terms, tag)
    if getattr(prop, "remember_verdicts", False):
        for t, r in zip(terms, res):
            _results[_key(t)] = r
    return res


if core.eval_shards is not _eval_shards:
    core.eval_shards = _eval_shards


class Remember:
    """mix-in: ``to_coq`` results are remembered per case; ``verdicts(case)`` returns the Coq
    verdicts of the last evaluation of that case (or {})"""
    remember_verdicts = True

    def _case_key(self, case):
        return hashlib.sha1(json.dumps(case, sort_keys=True, default=str).encode()).hexdigest()

    def remember(self, case, term):
        if not hasattr(self, "_terms"):
            self._terms = {}
        self._terms[self._case_key(case)] = _key(term)
        return term

    def verdicts(self, case):
        t = getattr(self, "_terms", {}).get(self._case_key(case))
        return _results.get(t, {}) if t else {}
