import importlib
import os
import sys

from . import core


def main(argv):
    if len(argv) < 2:
        print("usage: vcheck Cnn quick|thorough | vcheck Cnn --replay <file>")
        return 2
    pid = argv[0].upper()
    mod = importlib.import_module("harness.props." + pid.lower())
    prop = mod.PROP
    if argv[1] == "--replay":
        return core.replay(prop, argv[2])
    tier = os.environ.get("VERIF_TIER") or argv[1]
    if tier not in ("quick", "thorough"):
        tier = argv[1]
    seed = int(os.environ.get("VERIF_SEED", "0") or 0)
    return core.run_check(prop, tier, seed)


if __name__ == "__main__":
    sys.exit(main(sys.argv[1:]))
