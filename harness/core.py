"""Shared machinery of every check: proof build, correspondence shards evaluated
inside Coq, verdict, shrinking, replay files, evidence.  See DESIGN.md 1.2/1.3.

A property plug-in (harness/props/cNN.py) subclasses Prop and exports PROP.
"""
from __future__ import annotations

import fcntl
import hashlib
import json
import os
import random
import re
import shutil
import subprocess
import sys
import time
from concurrent.futures import ThreadPoolExecutor

VERIF = os.path.dirname(os.path.dirname(os.path.abspath(__file__)))
COQ = os.path.join(VERIF, "coq")
BUILD = os.path.join(VERIF, "build")
REPO = os.environ.get("VERIF_REPO", "/repo")
SCRATCH_TREE = os.path.realpath(REPO) != "/repo"
if SCRATCH_TREE:
    # A run against a scratch worktree gets its own copy of the Coq tree (sources and compiled
    # files): its Generated/Tables.v and whatever has to be rebuilt for it never touch, race
    # with or invalidate the build that the checks against /repo itself use.
    import atexit as _atexit
    _src = COQ
    COQ = os.path.join(BUILD, "coq-scratch-%d" % os.getpid())
    os.makedirs(BUILD, exist_ok=True)
    # copy under the main build lock: never snapshot a tree that another check is compiling
    with open(os.path.join(BUILD, ".lock"), "w") as _lk:
        fcntl.flock(_lk, fcntl.LOCK_EX)
        subprocess.run(["rsync", "-a", "--delete", _src + "/", COQ + "/"], check=True)
    _atexit.register(lambda: shutil.rmtree(COQ, ignore_errors=True))
NPROC = int(os.environ.get("VERIF_JOBS", "0")) or min(16, os.cpu_count() or 4)
COQC_TIMEOUT = 600

FORBIDDEN = re.compile(
    r"\b(Admitted|admit|Axiom|Axioms|Parameter|Parameters|Conjecture|Conjectures|"
    r"Hypothesis|Variable|Variables|Hypotheses)\b|Unset Guard|bypass_check|"
    r"Admit Obligations|type-in-type|impredicative-set"
)


def log(*a):
    print(*a, flush=True)


# --------------------------------------------------------------------------
# plug-in interface
# --------------------------------------------------------------------------
class Prop:
    id = "C00"
    corr_module = ""          # e.g. "Corr.C16Corr": defines [case], [corr], [spec]
    case_type = "case"
    preds = ("corr", "spec")  # boolean functions over [case]; extra ones allowed
    level = "proof"
    quick_n = 1200
    thorough_n = 20000
    shard_size = 300
    rule = ""
    trusted_base: list = []
    assumptions: list = []
    not_modelled: list = []
    # theorem kinds are derived from names: *_refuted, *_partial, *_bounded_*

    # -- lifecycle ---------------------------------------------------------
    def setup(self, tier, seed):
        pass

    def teardown(self):
        pass

    # -- cases -------------------------------------------------------------
    def generate(self, rng: random.Random, tier: str, n: int):
        """yield n JSON-able cases"""
        return []

    def enumerate_small(self, tier: str):
        """exhaustive small-scope enumerator (thorough tier; also the second
        stage of the search when a correspondence or proof breaks)"""
        return []

    def run_impl(self, case):
        """run the real code; return a JSON-able observation"""
        raise NotImplementedError

    def to_coq(self, case, obs) -> str:
        raise NotImplementedError

    def nontrivial(self, case, obs) -> bool:
        return True

    def classify(self, case, obs) -> str:
        return "case"

    def finding_of(self, case, obs):
        """id of the KNOWN_FINDINGS entry whose signature predicate this case
        satisfies, or None"""
        return None

    def shrink_candidates(self, case):
        return []

    def mutate(self, case, rng):
        """neighbours of a case, for the search after a broken correspondence"""
        return []

    def extra_checks(self, tier, seed):
        """property-specific checks that do not fit the shard protocol (e.g.
        real subprocess soak, aliasing snapshots).  Return a list of dicts
        {name, evaluations, failures:[{case, what}], note}."""
        return []


# --------------------------------------------------------------------------
# Coq build
# --------------------------------------------------------------------------
def _flock():
    os.makedirs(BUILD, exist_ok=True)
    f = open(os.path.join(COQ, ".buildlock") if SCRATCH_TREE else os.path.join(BUILD, ".lock"), "w")
    fcntl.flock(f, fcntl.LOCK_EX)
    return f


def ensure_makefile():
    mk = os.path.join(COQ, "Makefile")
    proj = os.path.join(COQ, "_CoqProject")
    if not os.path.exists(mk) or os.path.getmtime(mk) < os.path.getmtime(proj):
        subprocess.run(["coq_makefile", "-f", "_CoqProject", "-o", "Makefile"],
                       cwd=COQ, check=True, stdout=subprocess.DEVNULL)


def make(targets, timeout=1800):
    """flock'ed incremental make of the given .vo targets.  Returns (ok, output)."""
    t_wait = time.time()
    lock = _flock()
    LOCK_WAIT[0] += time.time() - t_wait
    try:
        ensure_makefile()
        regenerate_tables()
        p = subprocess.run(
            ["timeout", str(timeout), "make", "-j%d" % NPROC] + list(targets),
            cwd=COQ, stdout=subprocess.PIPE, stderr=subprocess.STDOUT, text=True)
        if p.returncode != 0 and ("out of memory" in p.stdout or "Killed" in p.stdout or "Error 134" in p.stdout
                                  or "Error 137" in p.stdout):
            # many coqc at once ran out of memory (from-scratch build): once more, nearly serially
            p = subprocess.run(
                ["timeout", str(timeout), "make", "-j2"] + list(targets),
                cwd=COQ, stdout=subprocess.PIPE, stderr=subprocess.STDOUT, text=True)
        return p.returncode == 0, p.stdout
    finally:
        lock.close()


TRANSLATOR_STATUS = {}
LOCK_WAIT = [0.0]   # seconds this process spent waiting for the shared build lock


def regenerate_tables():
    """coq/Generated/Tables.v from the repository's current source (fail-closed)."""
    from . import translate
    try:
        TRANSLATOR_STATUS.update(translate.regenerate(REPO, os.path.join(COQ, "Generated", "Tables.v")))
    except Exception as e:  # never let the translator itself decide a verdict
        TRANSLATOR_STATUS["error"] = repr(e)


def dep_closure(targets):
    """.v files (relative to coq/) that the given .vo targets depend on, from coq_makefile's
    dependency file; None when it cannot be determined (then the whole tree is scanned)."""
    depfile = os.path.join(COQ, ".Makefile.d")
    if not os.path.exists(depfile):
        return None
    graph = {}
    try:
        for line in open(depfile).read().replace("\\\n", " ").split("\n"):
            if ":" not in line:
                continue
            lhs, rhs = line.split(":", 1)
            outs = [x for x in lhs.split() if x.endswith(".vo")]
            deps = [x for x in rhs.split() if x.endswith(".vo") and not x.startswith("/")]
            for o in outs:
                graph.setdefault(o, set()).update(deps)
    except OSError:
        return None
    seen, todo = set(), list(targets)
    while todo:
        t = todo.pop()
        if t in seen:
            continue
        seen.add(t)
        if t not in graph and not os.path.exists(os.path.join(COQ, t[:-1])):
            return None
        todo.extend(graph.get(t, ()))
    return {t[:-1] for t in seen}


def scan_forbidden(only=None):
    """No Admitted/Axiom/... in the development (comments excluded).  `only`: set of .v paths
    relative to coq/ (the dependency closure of one property); None = the whole tree, which is
    what tools/setup.sh checks."""
    bad = []
    for root, _, files in os.walk(COQ):
        for fn in files:
            if not fn.endswith(".v"):
                continue
            path = os.path.join(root, fn)
            if only is not None and os.path.relpath(path, COQ) not in only:
                continue
            txt = open(path).read()
            txt = strip_comments(txt)
            for i, line in enumerate(txt.split("\n"), 1):
                m = FORBIDDEN.search(line)
                if m:
                    # Section-local Variable/Hypothesis are allowed
                    if m.group(1) in ("Variable", "Variables", "Hypothesis", "Hypotheses") \
                            and in_section(txt, i):
                        continue
                    bad.append("%s:%d: %s" % (os.path.relpath(path, VERIF), i, line.strip()))
    return bad


def strip_comments(txt):
    out, depth, i = [], 0, 0
    instr = False
    while i < len(txt):
        if not instr and txt.startswith("(*", i):
            depth += 1
            i += 2
            continue
        if not instr and depth and txt.startswith("*)", i):
            depth -= 1
            i += 2
            continue
        c = txt[i]
        if depth == 0:
            if c == '"':
                instr = not instr
            out.append(c)
        elif c == "\n":
            out.append(c)
        i += 1
    return "".join(out)


def in_section(txt, lineno):
    depth = 0
    for i, line in enumerate(txt.split("\n"), 1):
        if i >= lineno:
            break
        if re.match(r"\s*Section\s+\w+", line):
            depth += 1
        elif re.match(r"\s*End\s+\w+", line) and depth:
            depth -= 1
    return depth > 0


def theorems_of(prop_id):
    """Names declared in Properties/Cnn.v with their kind."""
    path = os.path.join(COQ, "Properties", prop_id + ".v")
    if not os.path.exists(path):
        return []
    txt = strip_comments(open(path).read())
    out = []
    for m in re.finditer(r"^\s*(Theorem|Example|Lemma|Corollary)\s+([A-Za-z0-9_']+)", txt, re.M):
        name = m.group(2)
        if m.group(1) == "Example":
            kind = "example(non-vacuity)"
        elif "_historical_" in name:
            kind = "historical(about the code before a fix: commit, not about /repo)"
        elif name.endswith("_refuted") or "_refuted_" in name:
            kind = "refuted(witness)"
        elif name.endswith("_partial") or "_partial_" in name:
            kind = "partial(guarded)"
        elif "_bounded_" in name:
            kind = "bounded(test)"
        else:
            kind = "full"
        out.append({"name": name, "kind": kind})
    return out


def print_assumptions(prop_id, names):
    """Compile a scratch file that prints the assumptions of each theorem."""
    d = os.path.join(BUILD, "assump")
    os.makedirs(d, exist_ok=True)
    fn = os.path.join(d, "A_%s_%d.v" % (prop_id, os.getpid()))
    with open(fn, "w") as f:
        f.write("From InvokeVerif Require Import Properties.%s.\n" % prop_id)
        for nm in names:
            f.write('Goal True. idtac "@@%s". Abort.\nPrint Assumptions %s.\n' % (nm, nm))
    p = subprocess.run(["timeout", "300", "coqc", "-Q", COQ, "InvokeVerif", fn],
                       stdout=subprocess.PIPE, stderr=subprocess.STDOUT, text=True, cwd=d)
    for ext in (".v", ".vo", ".vok", ".vos", ".glob"):
        try:
            os.remove(fn[:-2] + ext)
        except OSError:
            pass
    try:
        os.remove(os.path.join(d, ".A_%s_%d.aux" % (prop_id, os.getpid())))
    except OSError:
        pass
    res = {}
    if p.returncode != 0:
        return None, p.stdout
    cur = None
    for line in p.stdout.split("\n"):
        if line.startswith("@@"):
            cur = line[2:].strip()
            res[cur] = ""
        elif cur is not None:
            res[cur] += line.strip() + " "
    return {k: v.strip() for k, v in res.items()}, p.stdout


def run_coqchk(prop_id):
    """Independent re-check of Properties/Cnn.vo and everything it depends on; -o lists axioms."""
    try:
        p = subprocess.run(["timeout", "900", "coqchk", "-o", "-silent", "-Q", COQ, "InvokeVerif",
                            "InvokeVerif.Properties.%s" % prop_id],
                           stdout=subprocess.PIPE, stderr=subprocess.STDOUT, text=True, cwd=COQ)
    except OSError as e:
        return {"ran": False, "why": repr(e)}
    m = re.search(r"\* Axioms:(.*?)\n\s*\n\* Constants", p.stdout, re.S)
    axioms = " ".join(m.group(1).split()) if m else "?"
    return {"ran": True, "exit": p.returncode, "axioms": axioms,
            "summary": " ".join(p.stdout[-600:].split())}


# --------------------------------------------------------------------------
# shards
# --------------------------------------------------------------------------
def _parse_fail_lists(out, k):
    m = re.search(r"=\s*(.*?)\n\s*:\s", out, re.S)
    if not m:
        raise RuntimeError("cannot parse coqc output:\n" + out[-2000:])
    lists = re.findall(r"\[([^\]]*)\]", m.group(1))
    if len(lists) != k:
        raise RuntimeError("expected %d lists, got %d:\n%s" % (k, len(lists), out[-2000:]))
    return [set(int(x) for x in re.findall(r"\d+", l)) for l in lists]


def eval_shards(prop: Prop, terms, tag="s"):
    """Evaluate every predicate of prop.preds on every case term inside Coq.
    Returns list (per case) of dict pred -> bool."""
    if not terms:
        return []
    d = os.path.join(BUILD, "shards", "%s-%d-%s" % (prop.id, os.getpid(), tag))
    shutil.rmtree(d, ignore_errors=True)
    os.makedirs(d)
    shards = [terms[i:i + prop.shard_size] for i in range(0, len(terms), prop.shard_size)]
    preds = list(prop.preds)
    tup = "(" + ", ".join("fails %s cases" % p for p in preds) + ")" if len(preds) > 1 \
        else "fails %s cases" % preds[0]

    def one(idx):
        fn = os.path.join(d, "shard_%d.v" % idx)
        with open(fn, "w") as f:
            f.write("From Coq Require Import List String Ascii ZArith Bool.\nImport ListNotations.\n"
                    "Open Scope string_scope.\nOpen Scope list_scope.\n")
            f.write("From InvokeVerif Require Import Common.Shard %s.\n" % prop.corr_module)
            f.write("Definition cases : list %s := [\n" % prop.case_type)
            f.write(";\n".join(shards[idx]))
            f.write("\n].\nEval vm_compute in %s.\n" % tup)
        p = subprocess.run(
            ["bash", "-c", "ulimit -s unlimited 2>/dev/null; exec timeout %d coqc -Q %s InvokeVerif %s"
             % (COQC_TIMEOUT, COQ, fn)],
            stdout=subprocess.PIPE, stderr=subprocess.STDOUT, text=True, cwd=d)
        if p.returncode != 0:
            raise RuntimeError("shard %s failed (rc %d):\n%s" % (fn, p.returncode, p.stdout[-3000:]))
        return _parse_fail_lists(p.stdout, len(preds))

    with ThreadPoolExecutor(max_workers=NPROC) as ex:
        results = list(ex.map(one, range(len(shards))))
    out = []
    for idx, sh in enumerate(shards):
        fl = results[idx]
        for j in range(len(sh)):
            out.append({p: (j not in fl[k]) for k, p in enumerate(preds)})
    shutil.rmtree(d, ignore_errors=True)
    return out


# --------------------------------------------------------------------------
# findings
# --------------------------------------------------------------------------
def attributed(prop, case, obs, verdict):
    """prop.finding_of(case, obs[, verdict]): plug-ins that take a third parameter get the
    per-predicate verdict of the shard (so attribution can use Coq-side clause predicates
    listed in prop.preds)."""
    import inspect
    try:
        n = len(inspect.signature(prop.finding_of).parameters)
    except (TypeError, ValueError):
        n = 2
    try:
        return prop.finding_of(case, obs, verdict) if n >= 3 else prop.finding_of(case, obs)
    except Exception:  # an observation the predicate cannot read is never attributed
        return None


def safe_impl(prop, case):
    try:
        return prop.run_impl(case)
    except Exception as e:  # noqa
        return {"err": "HarnessCrash:" + type(e).__name__}


def load_findings(prop_id):
    path = os.path.join(VERIF, "KNOWN_FINDINGS.json")
    if not os.path.exists(path):
        return []
    data = json.load(open(path))
    return [f for f in data.get("findings", []) if prop_id in f.get("properties", [f.get("property")])]


def load_corpus(prop_id):
    d = os.path.join(VERIF, "corpus", prop_id)
    out = []
    if os.path.isdir(d):
        for fn in sorted(os.listdir(d)):
            if fn.endswith(".json"):
                data = json.load(open(os.path.join(d, fn)))
                cases = data["cases"] if isinstance(data, dict) and "cases" in data else [data]
                for c in cases:
                    out.append(c)
    return out


# --------------------------------------------------------------------------
# the check
# --------------------------------------------------------------------------
class Run:
    def __init__(self, prop: Prop, tier: str, seed: int):
        self.prop, self.tier, self.seed = prop, tier, seed
        self.t0 = time.time()
        self.violations = []     # (kind, path, suffix)
        self.notes = []
        self.crashes = []        # (case, observation) on which the harness itself failed

    # run implementation + model on a list of cases
    def evaluate(self, cases, tag):
        """Run the implementation and the model/spec on the cases.  A case on which the
        harness itself blows up (almost always because the implementation started to
        return something the driver or the printer cannot digest) is not allowed to
        kill the check: it is recorded in self.crashes and judged as failing both
        predicates, so it ends in a VIOLATION line with a replay."""
        import traceback
        obs, terms, crashed = [], [], {}
        for i, c in enumerate(cases):
            try:
                o = self.prop.run_impl(c)
                t = self.prop.to_coq(c, o)
            except Exception as e:  # noqa
                o = {"err": "HarnessCrash:" + type(e).__name__, "traceback": traceback.format_exc()[-1500:]}
                t = None
                crashed[i] = o
            obs.append(o)
            terms.append(t)
        live = [t for t in terms if t is not None]
        res_live = eval_shards(self.prop, live, tag)
        res, k = [], 0
        for i, t in enumerate(terms):
            if t is None:
                res.append({p: False for p in self.prop.preds})
                self.crashes.append((cases[i], crashed[i]))
            else:
                res.append(res_live[k])
                k += 1
        return obs, res

    def write_replay(self, kind, case, obs, extra=None):
        d = os.path.join(VERIF, "replays", self.prop.id)
        os.makedirs(d, exist_ok=True)
        h = hashlib.sha1(json.dumps([kind, case, (extra or {}).get("obligation")], sort_keys=True,
                                    default=str).encode()).hexdigest()[:10]
        path = os.path.join(d, "%d-%s-%s.json" % (self.seed, kind, h))
        rec = {"property": self.prop.id, "kind": kind, "case": case, "observation": obs,
               "seed": self.seed, "tier": self.tier}
        if extra:
            rec.update(extra)
        with open(path, "w") as f:
            json.dump(rec, f, indent=1, default=str)
        return path

    def shrink(self, case, pred_fails):
        """Greedy batch delta debugging: one shard per round."""
        cur = case
        t_end = time.time() + SHRINK_BUDGET_S
        for _ in range(25):
            if time.time() > t_end:      # a smaller replay is a convenience; the verdict does not wait for it
                self.notes.append("shrink stopped after %ds budget" % SHRINK_BUDGET_S)
                break
            cands = []
            seen = set()
            for c in self.prop.shrink_candidates(cur):
                k = json.dumps(c, sort_keys=True, default=str)
                if k not in seen:
                    seen.add(k)
                    cands.append(c)
                if len(cands) >= 200:
                    break
            if not cands:
                break
            try:
                obs, res = self.evaluate(cands, "shrink")
            except Exception as e:  # shrinking must never mask the finding
                self.notes.append("shrink aborted: %r" % (e,))
                break
            nxt = None
            for c, o, r in zip(cands, obs, res):
                if pred_fails(c, o, r):
                    nxt = c
                    break
            if nxt is None:
                break
            cur = nxt
        return cur


SHRINK_BUDGET_S = int(os.environ.get("VERIF_SHRINK_BUDGET_S", "150"))


def run_check(prop: Prop, tier: str, seed: int) -> int:
    run = Run(prop, tier, seed)
    rng = random.Random(seed)
    pid = prop.id
    findings = load_findings(pid)
    known = {f["id"]: f for f in findings if f.get("status") == "known"}
    ev = {"property_id": pid, "tier": tier, "seed": seed, "level": prop.level}
    cov = {}
    violations = 0
    out_lines = []

    def violation(path, suffix=""):
        nonlocal violations
        violations += 1
        line = "VIOLATION property=%s replay=%s" % (pid, path)
        if suffix:
            line += " " + suffix
        out_lines.append(line)
        log(line)

    # ---- 1. proofs --------------------------------------------------------
    forb = []
    try:
        prop.setup(tier, seed)
    except Exception as e:  # a set-up that no longer works against this tree is reported, not a dead check
        import traceback
        path = run.write_replay("harness-crash", None, None,
                                {"obligation": "plug-in setup", "traceback": traceback.format_exc()[-3000:]})
        violation(path, "no-failing-input-found")
        return finish(prop, run, ev, cov, violations, [], [], forb)
    try:
        ok_model, out_model = make(["Common/Shard.vo", prop.corr_module.replace(".", "/") + ".vo"])
        if not ok_model:
            # the model itself no longer compiles (generated table changed shape)
            path = run.write_replay("model-build-broken", None, None,
                                    {"obligation": prop.corr_module, "log": out_model[-4000:]})
            violation(path, "no-failing-input-found")
            return finish(prop, run, ev, cov, violations, [], [], forb)
        ok_proof, out_proof = make(["Properties/%s.vo" % pid])
        forb = scan_forbidden(dep_closure(["Properties/%s.vo" % pid,
                                           prop.corr_module.replace(".", "/") + ".vo"]))
        thms = theorems_of(pid)
        assump = {}
        if ok_proof:
            assump, raw = print_assumptions(pid, [t["name"] for t in thms])
            if assump is None:
                ok_proof, out_proof, assump = False, raw, {}
        broken_thm = None
        if not ok_proof:
            m = re.search(r'File "\./([^"]+)", line (\d+)', out_proof)
            broken_thm = "%s:%s" % (m.group(1), m.group(2)) if m else "Properties/%s.v" % pid
            if m:
                try:
                    src = open(os.path.join(COQ, m.group(1))).read().split("\n")[:int(m.group(2))]
                    names = re.findall(r"^\s*(?:Theorem|Lemma|Example|Corollary|Definition|Fixpoint)\s+([A-Za-z0-9_']+)",
                                       "\n".join(src), re.M)
                    if names:
                        broken_thm = "theorem %s (%s)" % (names[-1], broken_thm)
                except OSError:
                    pass
            log("proof obligations of %s no longer check (%s)" % (pid, broken_thm))
        bad_assump = [n for n, a in assump.items()
                      if not (a.startswith("Closed under the global context")
                              or prop_allows_axioms(prop, a))]
        cov["obligations"] = len(thms)
        cov["discharged"] = len(thms) if ok_proof and not forb and not bad_assump else 0
        cov["theorems"] = [dict(t, assumptions=assump.get(t["name"], "")) for t in thms]
        cov["checker_cmd"] = "make -C coq Properties/%s.vo (coqc 8.16.1, full .vo build) + Print Assumptions per theorem" % pid
        cov["trusted_base"] = list(prop.trusted_base)
        cov["translator"] = dict(TRANSLATOR_STATUS)
        if forb:
            cov["forbidden_constructs"] = forb
        if bad_assump:
            cov["unexpected_axioms"] = bad_assump

        if tier == "thorough" and ok_proof:
            cov["coqchk"] = run_coqchk(pid)

        # ---- 2. correspondence + spec ------------------------------------
        corpus = load_corpus(pid)
        n = prop.quick_n if tier == "quick" else prop.thorough_n
        gen = list(prop.generate(rng, tier, n))
        small = list(prop.enumerate_small(tier)) if tier == "thorough" else []
        cases = corpus + gen + small
        obs, res = run.evaluate(cases, "main")
        # KNOWN findings: replay the listed witnesses
        wit_cases = [(fid, f["witness"]) for fid, f in known.items() if f.get("witness") is not None
                     and f.get("witness_kind", "case") == "case"]
        wit_obs, wit_res = run.evaluate([w for _, w in wit_cases], "wit") if wit_cases else ([], [])
        findings_seen = {}
        for (fid, w), o, r in zip(wit_cases, wit_obs, wit_res):
            if not r["spec"]:
                findings_seen[fid] = 0

        keys = set()
        nontriv = set()
        hist = {}
        corr_fail, spec_fail = [], []
        for i, (c, o, r) in enumerate(zip(cases, obs, res)):
            k = hashlib.sha1(json.dumps(c, sort_keys=True, default=str).encode()).hexdigest()
            keys.add(k)
            try:
                if prop.nontrivial(c, o):
                    nontriv.add(k)
                cl = prop.classify(c, o)
            except Exception:  # odd observation (e.g. a crashed case): still judged below
                cl = "unclassifiable"
            hist[cl] = hist.get(cl, 0) + 1
            if not r["spec"]:
                fid = attributed(prop, c, o, r) if r["corr"] else None
                if r["corr"] and fid in known:
                    findings_seen[fid] = findings_seen.get(fid, 0) + 1
                else:
                    spec_fail.append(i)
            elif not r["corr"]:
                corr_fail.append(i)

        cov["evaluations"] = len(cases)
        cov["distinct"] = len(keys)
        cov["distinct_nontrivial"] = len(nontriv)
        cov["rule"] = prop.rule
        cov["traces_validated_against_impl"] = len(cases) - len(corr_fail)
        cov["input_distribution"] = hist
        cov["corpus_cases"] = len(corpus)
        cov["enumerated_small_scope"] = len(small)
        cov["exhaustive"] = False
        step = max(1, len(cases) // 3)
        cov["samples"] = [{"case": cases[i], "observation": obs[i]} for i in range(0, len(cases), step)][:4]

        # spec violations on the implementation
        if spec_fail:
            i = spec_fail[0]

            def still_fails(c, o, r):
                if r["spec"]:
                    return False
                return not (r["corr"] and attributed(prop, c, o, r) in known)
            small_case = run.shrink(cases[i], still_fails)
            o2 = safe_impl(prop, small_case)
            path = run.write_replay("spec-violation", small_case, o2,
                                    {"original_case": cases[i], "model_agrees": res[i]["corr"],
                                     "count_in_run": len(spec_fail)})
            violation(path)
        # broken tie or broken proof, spec fine so far: search
        if not spec_fail and (corr_fail or not ok_proof or forb or bad_assump):
            found = None
            seeds = [cases[i] for i in corr_fail[:20]]
            pool = []
            for c in seeds:
                pool.extend(list(prop.mutate(c, rng))[:100])
            if tier != "thorough":
                pool.extend(list(prop.enumerate_small("quick")))
            pool.extend(list(prop.generate(rng, tier, n)))
            if pool:
                pobs, pres = run.evaluate(pool, "search")
                for c, o, r in zip(pool, pobs, pres):
                    if not r["spec"] and not (r["corr"] and attributed(prop, c, o, r) in known):
                        found = (c, o, r)
                        break
                cov["search_evaluations"] = len(pool)
            if found:
                def still_fails(c, o, r):
                    return not r["spec"] and not (r["corr"] and attributed(prop, c, o, r) in known)
                sc = run.shrink(found[0], still_fails)
                path = run.write_replay("spec-violation", sc, safe_impl(prop, sc),
                                        {"original_case": found[0], "found_by": "search after broken obligation"})
                violation(path)
            else:
                if corr_fail:
                    i = corr_fail[0]

                    spec_hits = []

                    def corr_still_fails(c, o, r):
                        # a smaller disagreement may expose what the big one hid: remember every
                        # shrink candidate on which the implementation itself fails the spec
                        if not r["spec"] and not (r["corr"] and attributed(prop, c, o, r) in known):
                            spec_hits.append(c)
                        return not r["corr"]
                    sc = run.shrink(cases[i], corr_still_fails)
                    if spec_hits:
                        def still_fails2(c, o, r):
                            return not r["spec"] and not (r["corr"] and attributed(prop, c, o, r) in known)
                        sc2 = run.shrink(spec_hits[-1], still_fails2)
                        path = run.write_replay("spec-violation", sc2, safe_impl(prop, sc2),
                                                {"original_case": cases[i],
                                                 "found_by": "shrinking a model/implementation disagreement"})
                        violation(path)
                    else:
                        path = run.write_replay(
                            "correspondence-broken", sc, safe_impl(prop, sc),
                            {"obligation": "corr:%s (model %s no longer describes the implementation)" % (pid, prop.corr_module),
                             "original_case": cases[i], "count_in_run": len(corr_fail)})
                        violation(path, "no-failing-input-found")
                else:
                    what = broken_thm or "; ".join(forb + bad_assump)
                    path = run.write_replay("proof-broken", None, None,
                                            {"obligation": what, "log": (out_proof or "")[-4000:]})
                    violation(path, "no-failing-input-found")

        # ---- 3. property-specific extra checks ---------------------------
        extras = prop.extra_checks(tier, seed)
        for x in extras:
            cov.setdefault("extra_checks", []).append(
                {k: v for k, v in x.items() if k != "failures"} | {"failures": len(x.get("failures", []))})
            for f in x.get("failures", []):
                fid = f.get("finding")
                if fid in known:
                    findings_seen[fid] = findings_seen.get(fid, 0) + 1
                    continue
                path = run.write_replay("extra-" + x["name"], f.get("case"), f.get("what"))
                violation(path)
                break

        for fid, cnt in findings_seen.items():
            log("KNOWN-FINDING: property=%s %s: %s (witness still fails; %d generated cases attributed)"
                % (pid, fid, known[fid]["what"], cnt))
        cov["known_findings_seen"] = findings_seen
        cov["known_findings_not_reproduced"] = [fid for fid in known if fid not in findings_seen]
        return finish(prop, run, ev, cov, violations, corr_fail, spec_fail, forb)
    finally:
        prop.teardown()


def prop_allows_axioms(prop, text):
    allowed = getattr(prop, "allowed_axioms", [])
    names = re.findall(r"^([A-Za-z0-9_.']+)\s*:", text, re.M)
    if not names:
        names = re.findall(r"([A-Za-z0-9_.']+) :", text)
    return bool(names) and all(any(n.endswith(a) for a in allowed) for n in names)


def finish(prop, run, ev, cov, violations, corr_fail, spec_fail, forb):
    ev["coverage"] = cov
    cov.setdefault("obligations", 0)
    cov.setdefault("discharged", 0)
    cov.setdefault("checker_cmd", "make -C coq Properties/%s.vo" % prop.id)
    cov.setdefault("trusted_base", list(prop.trusted_base))
    cov.setdefault("evaluations", 0)
    cov.setdefault("distinct_nontrivial", 0)
    cov["correspondence_disagreements"] = len(corr_fail)
    cov["spec_failures_unattributed"] = len(spec_fail)
    cov["not_modelled"] = list(prop.not_modelled)
    ev["assumptions"] = list(prop.assumptions)
    ev["wall_s"] = round(time.time() - run.t0, 2)
    cov["build_lock_wait_s"] = round(LOCK_WAIT[0], 2)
    ev["violations"] = violations
    if run.notes:
        cov["notes"] = run.notes
    # evidence/ only ever describes /repo itself; runs against a scratch tree go to build/
    evdir = os.path.join(VERIF, "evidence") if os.path.realpath(REPO) == "/repo" \
        else os.path.join(BUILD, "evidence-scratch")
    ev["repo"] = REPO
    os.makedirs(evdir, exist_ok=True)
    with open(os.path.join(evdir, prop.id + ".json"), "w") as f:
        json.dump(ev, f, indent=1, default=str)
    log("%s %s: %d cases, %d theorems (%d discharged), %d corr disagreements, %d violations, %.1fs"
        % (prop.id, run.tier, cov["evaluations"], cov["obligations"], cov["discharged"],
           len(corr_fail), violations, ev["wall_s"]))
    return 1 if violations else 0


def replay(prop: Prop, path: str) -> int:
    rec = json.load(open(path))
    case = rec.get("case")
    if case is None:
        ok, out = make(["Properties/%s.vo" % prop.id])
        log("obligation %s: %s" % (rec.get("obligation"), "checks" if ok else "still broken"))
        return 0 if ok else 1
    prop.setup("quick", rec.get("seed", 0))
    try:
        ok, out = make([prop.corr_module.replace(".", "/") + ".vo"])
        run = Run(prop, "quick", rec.get("seed", 0))
        obs, res = run.evaluate([case], "replay")
        log(json.dumps({"case": case, "observation": obs[0], "verdict": res[0]}, indent=1, default=str))
        bad = (not res[0]["spec"]) or (rec["kind"] == "correspondence-broken" and not res[0]["corr"])
        if bad and res[0]["corr"]:
            known = {f["id"]: f for f in load_findings(prop.id) if f.get("status") == "known"}
            fid = attributed(prop, case, obs[0], res[0])
            if fid in known:
                log("KNOWN-FINDING: property=%s %s: %s (this replay is an instance of the listed finding)"
                    % (prop.id, fid, known[fid]["what"]))
                return 0
        if bad:
            log("VIOLATION property=%s replay=%s" % (prop.id, path))
        return 1 if bad else 0
    finally:
        prop.teardown()
